"""symx.ssp -- symbolic model of the part of scipy.sparse that pygradflow uses.

Structure (row/column indices, formats, duplicate and explicit-zero entries) is concrete;
values are symbolic.  The storage arrays (`data`, `row`, `col`, `indices`, `indptr`) are
snp.ndarray objects that are *shared or copied exactly as scipy does* -- the share/copy
table ALIAS is regenerated from the installed scipy by symx.aliasprobe at every run.
"""
import builtins
import types

from . import core, snp
from .core import HarnessError, SR, SI, SB
from .snp import ndarray

# (format, operation) -> 'self' | 'share' (new object, same data array) | 'copy'
ALIAS = {
    ("coo", "tocoo"): "self",
    ("csr", "tocoo"): "share",
    ("csc", "tocoo"): "copy",
    ("dia", "tocoo"): "copy",
    ("csr", "tocsr"): "self",
    ("csc", "tocsc"): "self",
    ("coo", "T"): "share",
    ("csr", "T"): "share",
    ("csc", "T"): "share",
    ("coo", "copy.copy"): "share",
    ("csr", "copy.copy"): "share",
    ("csc", "copy.copy"): "share",
    ("coo", "astype"): "copy",
    ("csr", "astype"): "copy",
    ("csc", "astype"): "copy",
    ("coo", "coo_matrix(data)"): "share",
}


def _ints(a):
    if isinstance(a, ndarray):
        a = snp._conc(a).items
    out = []
    for v in a:
        if core.is_sym(v):
            raise HarnessError("symbolic sparse index")
        out.append(builtins.int(v))
    return out


def _iszero(v):
    return (not core.is_sym(v)) and v == 0


class spmatrix:
    ndim = 2
    __array_priority__ = 200

    def __init__(self, fmt, shape, a, b, data, dtype=None):
        self.format = fmt
        self._shape = (builtins.int(shape[0]), builtins.int(shape[1]))
        self._a = a  # coo/dia: row        csr/csc: indptr
        self._b = b  # coo/dia: col        csr/csc: indices
        self.data = data
        self.dtype = dtype or data.dtype
        if not self.dtype.kind == "f":
            pass

    # ---- structure access
    @property
    def shape(self):
        return self._shape

    @property
    def row(self):
        if self.format not in ("coo", "dia"):
            raise AttributeError("row")
        return self._a

    @property
    def col(self):
        if self.format not in ("coo", "dia"):
            raise AttributeError("col")
        return self._b

    @row.setter
    def row(self, v):
        self._a = v

    @col.setter
    def col(self, v):
        self._b = v

    @property
    def indptr(self):
        if self.format not in ("csr", "csc"):
            raise AttributeError("indptr")
        return self._a

    @property
    def indices(self):
        if self.format not in ("csr", "csc"):
            raise AttributeError("indices")
        return self._b

    @property
    def nnz(self):
        return len(self.data.items)

    def getnnz(self):
        return self.nnz

    @property
    def size(self):
        return self.nnz

    def triples(self):
        """stored entries (i, j, value) in storage order"""
        d = self.data.items
        if self.format in ("coo", "dia"):
            return list(zip(_ints(self._a), _ints(self._b), d))
        ptr = _ints(self._a)
        ind = _ints(self._b)
        out = []
        for major in range(len(ptr) - 1):
            for k in range(ptr[major], ptr[major + 1]):
                out.append((major, ind[k], d[k]) if self.format == "csr" else (ind[k], major, d[k]))
        return out

    def _summed(self):
        acc = {}
        for i, j, v in self.triples():
            acc[(i, j)] = acc[(i, j)] + v if (i, j) in acc else v
        return acc

    # ---- builders
    @staticmethod
    def from_triples(tr, shape, fmt, dtype=None, canonical=False):
        dt = dtype or snp.float64
        if fmt in ("coo", "dia"):
            if canonical:
                tr = spmatrix._canon(tr, "csr")
            return spmatrix(
                fmt,
                shape,
                ndarray.of([t[0] for t in tr], snp.int32),
                ndarray.of([t[1] for t in tr], snp.int32),
                ndarray.of([t[2] for t in tr], dt),
                dt,
            )
        tr = spmatrix._canon(tr, fmt)
        nmaj = shape[0] if fmt == "csr" else shape[1]
        ptr = [0] * (nmaj + 1)
        for i, j, v in tr:
            ptr[(i if fmt == "csr" else j) + 1] += 1
        for k in range(nmaj):
            ptr[k + 1] += ptr[k]
        ind = [(t[1] if fmt == "csr" else t[0]) for t in tr]
        return spmatrix(fmt, shape, ndarray.of(ptr, snp.int32), ndarray.of(ind, snp.int32), ndarray.of([t[2] for t in tr], dt), dt)

    @staticmethod
    def _canon(tr, fmt):
        acc = {}
        order = []
        for i, j, v in tr:
            if (i, j) in acc:
                acc[(i, j)] = acc[(i, j)] + v
            else:
                acc[(i, j)] = v
                order.append((i, j))
        keys = sorted(order, key=(lambda k: (k[0], k[1])) if fmt == "csr" else (lambda k: (k[1], k[0])))
        return [(i, j, acc[(i, j)]) for i, j in keys]

    def _like(self, tr, shape=None, fmt=None, dtype=None):
        return spmatrix.from_triples(tr, shape or self._shape, fmt or self.format, dtype or self.dtype)

    # ---- conversions (aliasing per ALIAS)
    def _alias(self, op):
        return ALIAS.get((self.format, op), "copy")

    def tocoo(self, copy=False):
        if self.format == "coo":
            if copy:
                return spmatrix("coo", self._shape, self._a.copy(), self._b.copy(), self.data.copy(), self.dtype)
            return self
        tr = self.triples()
        rows = ndarray.of([t[0] for t in tr], snp.int32)
        cols = ndarray.of([t[1] for t in tr], snp.int32)
        if not copy and self._alias("tocoo") == "share":
            return spmatrix("coo", self._shape, rows, cols, self.data, self.dtype)
        return spmatrix("coo", self._shape, rows, cols, self.data.copy(), self.dtype)

    def tocsr(self, copy=False):
        if self.format == "csr":
            return self.copy() if copy else self
        return spmatrix.from_triples(self.triples(), self._shape, "csr", self.dtype)

    def tocsc(self, copy=False):
        if self.format == "csc":
            return self.copy() if copy else self
        return spmatrix.from_triples(self.triples(), self._shape, "csc", self.dtype)

    def asformat(self, fmt, copy=False):
        if fmt is None or fmt == self.format:
            return self.copy() if copy else self
        return {"coo": self.tocoo, "csr": self.tocsr, "csc": self.tocsc}[fmt](copy=copy)

    def todia(self, copy=False):
        return self

    def toarray(self):
        m, n = self._shape
        acc = self._summed()
        return snp.array([[acc.get((i, j), 0.0) for j in range(n)] for i in range(m)]) if m and n else snp.zeros((m, n))

    todense = toarray

    def copy(self):
        return spmatrix(self.format, self._shape, self._a.copy(), self._b.copy(), self.data.copy(), self.dtype)

    def __copy__(self):
        if self._alias("copy.copy") == "share":
            return spmatrix(self.format, self._shape, self._a, self._b, self.data, self.dtype)
        return self.copy()

    def __deepcopy__(self, memo):
        return self.copy()

    def astype(self, dtype, copy=True):
        dt = snp._dt(dtype)
        if not copy and dt == self.dtype:
            return self
        return spmatrix(self.format, self._shape, self._a.copy(), self._b.copy(), self.data.astype(dt), dt)

    @property
    def T(self):
        return self.transpose()

    def transpose(self, copy=False):
        m, n = self._shape
        share = self._alias("T") == "share" and not copy
        d = self.data if share else self.data.copy()
        a = self._a if share else self._a.copy()
        b = self._b if share else self._b.copy()
        if self.format in ("coo", "dia"):
            return spmatrix(self.format, (n, m), b, a, d, self.dtype)
        return spmatrix("csc" if self.format == "csr" else "csr", (n, m), a, b, d, self.dtype)

    def eliminate_zeros(self):
        tr = [(i, j, v) for i, j, v in self.triples() if not _iszero(v)]
        new = self._like(tr)
        self._a, self._b, self.data = new._a, new._b, new.data

    def sum_duplicates(self):
        new = self._like(spmatrix._canon(self.triples(), "csr"))
        self._a, self._b, self.data = new._a, new._b, new.data

    def diagonal(self):
        acc = self._summed()
        return ndarray.of([acc.get((i, i), 0.0) for i in range(builtins.min(self._shape))])

    def setdiag(self, values, k=0):
        """scipy's setdiag (main diagonal): CSR/CSC with every diagonal entry stored -> the values are
        written into the existing data array (an object sharing it sees them); otherwise the structure
        is rebuilt with fresh arrays"""
        if k != 0:
            raise HarnessError("setdiag with k != 0")
        nd = builtins.min(self._shape)
        vals = list(values.items) if isinstance(values, ndarray) else ([values] * nd if not isinstance(values, (list, tuple)) else list(values))
        if len(vals) == 1 and nd != 1:
            vals = vals * nd
        vals = vals[:nd]
        tr = self.triples()
        pos = {}
        for idx, (i, j, v) in enumerate(tr):
            if i == j:
                pos.setdefault(i, []).append(idx)
        if self.format in ("csr", "csc") and builtins.all(len(pos.get(i, [])) == 1 for i in range(len(vals))):
            self.data._check_w()
            for i, v in enumerate(vals):
                self.data._buf[self.data._idx[pos[i][0]]] = v
            return
        rest = [(i, j, v) for (i, j, v) in tr if i != j or i >= len(vals)]
        new = self._like(rest + [(i, i, v) for i, v in enumerate(vals)])
        if self.format in ("csr", "csc"):
            new = self._like(spmatrix._canon(new.triples(), self.format))
        self._a, self._b, self.data = new._a, new._b, new.data

    def count_nonzero(self):
        return builtins.sum(1 for _, _, v in self.triples() if not _iszero(v))

    # ---- arithmetic
    def _scale(self, c):
        return spmatrix(self.format, self._shape, self._a.copy(), self._b.copy(), ndarray.of([snp._mul(v, c) for v in self.data.items], self.dtype), self.dtype)

    def __neg__(self):
        return spmatrix(self.format, self._shape, self._a.copy(), self._b.copy(), ndarray.of([-v for v in self.data.items], self.dtype), self.dtype)

    def __mul__(self, o):
        if isinstance(o, (builtins.int, builtins.float, SR, SI)):
            return self._scale(o)
        return self.dot(o)  # spmatrix semantics: * is the matrix product

    def __rmul__(self, o):
        if isinstance(o, (builtins.int, builtins.float, SR, SI)):
            return self._scale(o)
        return NotImplemented

    def __truediv__(self, o):
        return self._scale(1.0 / o)

    def _addsub(self, o, sign):
        if isinstance(o, (builtins.int, builtins.float)) and o == 0:
            return self.copy()
        if not isinstance(o, spmatrix):
            return NotImplemented
        if o._shape != self._shape:
            raise ValueError("inconsistent shapes")
        A = self._summed()
        B = o._summed()
        out = {}
        policy = getattr(core.ENG, "sparse_cancel", "keep")
        for k in set(A) | set(B):
            if k in A and k in B:
                v = A[k] + B[k] if sign > 0 else A[k] - B[k]
            elif k in A:
                v = A[k]
            else:
                v = B[k] if sign > 0 else -B[k]
            # scipy's binary ops drop results that are exactly zero
            if core.is_sym(v):
                if policy == "fork" and builtins.bool(v == 0):
                    continue
            elif v == 0:
                continue
            out[k] = v
        fmt = "csc" if (self.format == "csc" and o.format == "csc") else "csr"
        dt = snp._res_dtype(self.dtype, o.dtype, None)
        return spmatrix.from_triples([(i, j, v) for (i, j), v in out.items()], self._shape, fmt, dt)

    def __add__(self, o):
        return self._addsub(o, +1)

    def __radd__(self, o):
        return self._addsub(o, +1)

    def __sub__(self, o):
        return self._addsub(o, -1)

    def dot(self, o):
        m, n = self._shape
        if isinstance(o, spmatrix):
            if o._shape[0] != n:
                raise ValueError("dimension mismatch")
            bycol = {}
            for k, j, w in o.triples():
                bycol.setdefault(k, []).append((j, w))
            out = {}
            for i, k, v in self.triples():
                for j, w in bycol.get(k, []):
                    out[(i, j)] = out[(i, j)] + v * w if (i, j) in out else v * w
            return spmatrix.from_triples([(i, j, v) for (i, j), v in out.items()], (m, o._shape[1]), "csr", snp._res_dtype(self.dtype, o.dtype, None))
        if isinstance(o, ndarray):
            o = snp._conc(o)
            if o.ndim == 1:
                if o.shape[0] != n:
                    raise ValueError("dimension mismatch")
                oi = o.items
                out = [0.0] * m
                for i, j, v in self.triples():
                    out[i] = out[i] + v * oi[j]
                return ndarray.of(out, snp._res_dtype(self.dtype, o.dtype, None) if o.dtype.kind == "f" else self.dtype)
            return snp.dot(self.toarray(), o)
        if isinstance(o, (builtins.int, builtins.float, SR, SI)):
            return self._scale(o)
        return NotImplemented

    __matmul__ = dot

    def __rmatmul__(self, o):
        return self.T.dot(o)

    def multiply(self, o):
        raise HarnessError("spmatrix.multiply is not modelled")

    # ---- indexing
    def __getitem__(self, key):
        if not isinstance(key, tuple):
            key = (key, slice(None))
        r, c = key
        m, n = self._shape

        def sel(k, size):
            if isinstance(k, slice):
                return list(range(size))[k], True
            if isinstance(k, ndarray):
                k = snp._conc(k)
                if k.dtype == snp.bool_:
                    return [i for i, b in enumerate(k.items) if builtins.bool(b)], True
                idx = _ints(k)
                return [i + size if i < 0 else i for i in idx], True
            if isinstance(k, (list, tuple)):
                return [builtins.int(i) for i in k], True
            i = builtins.int(k)
            if i < 0:
                i += size
            if not 0 <= i < size:
                raise IndexError("index out of range")
            return [i], False

        rows, rvec = sel(r, m)
        cols, cvec = sel(c, n)
        for i in rows:
            if not 0 <= i < m:
                raise IndexError("row index out of bounds")
        for j in cols:
            if not 0 <= j < n:
                raise IndexError("column index out of bounds")
        acc = self._summed() if self.format in ("coo", "dia") else None
        if not rvec and not cvec:
            s = self._summed()
            return s.get((rows[0], cols[0]), 0.0)
        tr = []
        stored = self.triples()
        rpos = {}
        for a, i in enumerate(rows):
            rpos.setdefault(i, []).append(a)
        cpos = {}
        for b, j in enumerate(cols):
            cpos.setdefault(j, []).append(b)
        for i, j, v in stored:
            for a in rpos.get(i, []):
                for b in cpos.get(j, []):
                    tr.append((a, b, v))
        fmt = self.format if self.format in ("csr", "csc") else "csr"
        return spmatrix.from_triples(tr, (len(rows), len(cols)), fmt, self.dtype)

    def getrow(self, i):
        return self[i, :]

    def getcol(self, j):
        return self[:, j]

    def __setitem__(self, key, val):
        raise HarnessError("sparse item assignment is not modelled")

    def __iadd__(self, o):
        return NotImplemented

    def __isub__(self, o):
        return NotImplemented

    def __eq__(self, o):
        raise HarnessError("sparse == is not modelled")

    def __ne__(self, o):
        if isinstance(o, spmatrix):
            d = self - o
            return d
        raise HarnessError("sparse != is not modelled")

    __hash__ = object.__hash__

    def __len__(self):
        raise TypeError("sparse array length is ambiguous; use getnnz() or shape[0]")

    def __bool__(self):
        raise ValueError("The truth value of an array with more than one element is ambiguous.")

    def __repr__(self):
        return f"<symsparse {self.format} {self._shape} nnz={self.nnz}>"

    def sum(self, axis=None):
        tr = self.triples()
        if axis is None:
            return snp._sum([v for _, _, v in tr])
        m, n = self._shape
        out = [0.0] * (n if axis == 0 else m)
        for i, j, v in tr:
            k = j if axis == 0 else i
            out[k] = out[k] + v
        return ndarray.of(out)

    def max(self):
        vals = [v for v in self._summed().values()]
        if len(vals) < self._shape[0] * self._shape[1]:
            vals.append(0.0)
        return ndarray.of(vals).max()


sparray = spmatrix


def issparse(x):
    return isinstance(x, spmatrix)


isspmatrix = issparse


def _from_dense(a, fmt, dtype):
    a = snp.asarray(a)
    if a.ndim == 1:
        a = a.reshape(1, a.shape[0])
    m, n = a.shape
    it = a.items
    tr = [(i, j, it[i * n + j]) for i in range(m) for j in range(n) if not _iszero(it[i * n + j])]
    return spmatrix.from_triples(tr, (m, n), fmt, snp._dt(dtype) if dtype else (a.dtype if a.dtype.kind in "fi" else snp.float64))


def _construct(fmt, arg, shape=None, dtype=None, copy=False):
    dt = snp._dt(dtype) if dtype is not None else None
    if isinstance(arg, spmatrix):
        r = arg.asformat(fmt, copy=copy)
        if dt is not None and dt != r.dtype:
            r = r.astype(dt)
        return r
    if isinstance(arg, tuple):
        if len(arg) == 2 and builtins.all(isinstance(s, builtins.int) for s in arg):
            return spmatrix.from_triples([], arg, fmt, dt or snp.float64)
        if len(arg) == 2 and isinstance(arg[1], tuple):
            data, (rows, cols) = arg
            if isinstance(data, snp.MaskedView):
                data = data.concretize()
            if isinstance(rows, snp.MaskedView):
                rows = rows.concretize()
            if isinstance(cols, snp.MaskedView):
                cols = cols.concretize()
            ri, ci = _ints(rows), _ints(cols)
            if shape is None:
                shape = (builtins.max(ri, default=-1) + 1, builtins.max(ci, default=-1) + 1)
            for i in ri:
                if not 0 <= i < shape[0]:
                    raise ValueError("row index exceeds matrix dimensions")
            for j in ci:
                if not 0 <= j < shape[1]:
                    raise ValueError("column index exceeds matrix dimensions")
            if isinstance(data, ndarray) and data.dtype.kind in "fi" and (dt is None or dt == data.dtype) and not copy and ALIAS.get(("coo", "coo_matrix(data)")) == "share":
                darr = data
            else:
                items = data.items if isinstance(data, ndarray) else list(data)
                # scipy keeps the dtype of the data it is given (an integer array stays integer)
                darr = ndarray.of(items, dt or (data.dtype if isinstance(data, ndarray) and data.dtype.kind in "fi" else snp.float64))
            if len(darr.items) != len(ri) or len(ri) != len(ci):
                raise ValueError("row, column, and data array must all be the same length")
            coo = spmatrix("coo", shape, ndarray.of(ri, snp.int32), ndarray.of(ci, snp.int32), darr, darr.dtype)
            return coo if fmt == "coo" else coo.asformat(fmt)
        if len(arg) == 3:
            data, indices, indptr = arg
            d = data if isinstance(data, ndarray) else ndarray.of(list(data), dt or snp.float64)
            assert shape is not None
            return spmatrix(fmt, shape, ndarray.of(_ints(indptr), snp.int32), ndarray.of(_ints(indices), snp.int32), d, d.dtype)
    if isinstance(arg, (ndarray, list)):
        return _from_dense(arg, fmt, dtype)
    raise HarnessError(f"sparse constructor argument {type(arg)}")


def coo_matrix(arg, shape=None, dtype=None, copy=False):
    return _construct("coo", arg, shape, dtype, copy)


def csr_matrix(arg, shape=None, dtype=None, copy=False):
    return _construct("csr", arg, shape, dtype, copy)


def csc_matrix(arg, shape=None, dtype=None, copy=False):
    return _construct("csc", arg, shape, dtype, copy)


coo_array = coo_matrix
csr_array = csr_matrix
csc_array = csc_matrix


def eye(m, n=None, k=0, dtype=None, format=None):
    n = m if n is None else n
    dt = snp._dt(dtype) if dtype is not None else snp.float64
    r = spmatrix.from_triples([(i, i, 1.0) for i in range(builtins.min(m, n))], (m, n), "dia", dt)
    return r if format in (None, "dia") else r.asformat(format)


identity = eye


def diags(diagonals, offsets=0, shape=None, format=None, dtype=None):
    dt = snp._dt(dtype) if dtype is not None else snp.float64
    if isinstance(diagonals, ndarray):
        d0 = diagonals.items
        seq = True
    else:
        diagonals = list(diagonals)
        if diagonals and isinstance(diagonals[0], (ndarray, list, tuple)):
            assert len(diagonals) == 1, "only the main diagonal is modelled"
            d0 = diagonals[0].items if isinstance(diagonals[0], ndarray) else list(diagonals[0])
            seq = True
        elif len(diagonals) == 1 and shape is not None:
            d0 = diagonals  # scalar broadcast along the diagonal
            seq = False
        else:
            d0 = diagonals
            seq = True
    if offsets not in (0, [0], (0,)):
        raise HarnessError("only the main diagonal is modelled")
    if shape is None:
        shape = (len(d0), len(d0))
    k = builtins.min(shape)
    vals = list(d0) if seq and len(d0) == k else [d0[0]] * k
    r = spmatrix.from_triples([(i, i, vals[i]) for i in range(k)], shape, "dia", dt)
    return r if format in (None, "dia") else r.asformat(format)


def bmat(blocks, format=None, dtype=None):
    nbr = len(blocks)
    nbc = len(blocks[0])
    hs = [None] * nbr
    ws = [None] * nbc
    for a, br in enumerate(blocks):
        assert len(br) == nbc
        for b, blk in enumerate(br):
            if blk is None:
                continue
            if isinstance(blk, ndarray):
                blk = _from_dense(blk, "coo", None)
                blocks[a][b] = blk
            if hs[a] is None:
                hs[a] = blk.shape[0]
            elif hs[a] != blk.shape[0]:
                raise ValueError(f"blocks[{a},:] has incompatible row dimensions")
            if ws[b] is None:
                ws[b] = blk.shape[1]
            elif ws[b] != blk.shape[1]:
                raise ValueError(f"blocks[:,{b}] has incompatible column dimensions")
    if None in hs or None in ws:
        raise ValueError("blocks must have at least one non-empty block per row and column")
    tr = []
    dt = None
    r0 = 0
    for a, br in enumerate(blocks):
        c0 = 0
        for b, blk in enumerate(br):
            if blk is not None:
                dt = blk.dtype if dt is None else snp._res_dtype(dt, blk.dtype, None)
                for i, j, v in blk.triples():
                    tr.append((i + r0, j + c0, v))
            c0 += ws[b]
        r0 += hs[a]
    dt = snp._dt(dtype) if dtype is not None else (dt or snp.float64)
    return spmatrix.from_triples(tr, (builtins.sum(hs), builtins.sum(ws)), format or "coo", dt)


block_array = bmat


def hstack(blocks, format=None, dtype=None):
    return bmat([list(blocks)], format, dtype)


def vstack(blocks, format=None, dtype=None):
    return bmat([[b] for b in blocks], format, dtype)


def tril(a, k=0, format=None):
    return a._like([(i, j, v) for i, j, v in a.triples() if j - i <= k], fmt="coo")


def triu(a, k=0, format=None):
    return a._like([(i, j, v) for i, j, v in a.triples() if j - i >= k], fmt="coo")


class _Unmodelled:
    def __init__(self, name):
        self.name = name

    def __call__(self, *a, **k):
        raise HarnessError(f"scipy.sparse.linalg.{self.name} reached without an oracle installed")


def modules():
    sp = types.ModuleType("scipy")
    sparse = types.ModuleType("scipy.sparse")
    for k in (
        "spmatrix sparray issparse isspmatrix coo_matrix csr_matrix csc_matrix coo_array csr_array csc_array eye identity diags bmat block_array hstack vstack tril triu"
    ).split():
        setattr(sparse, k, globals()[k])
    la = types.ModuleType("scipy.sparse.linalg")
    for k in ("splu", "spsolve", "gmres", "minres", "cg", "factorized", "eigsh", "svds"):
        setattr(la, k, _Unmodelled(k))
    sparse.linalg = la
    sp.sparse = sparse
    integ = types.ModuleType("scipy.integrate")
    integ.solve_ivp = _Unmodelled("solve_ivp")
    sp.integrate = integ
    sp.__version__ = "symx"
    return {"scipy": sp, "scipy.sparse": sparse, "scipy.sparse.linalg": la, "scipy.integrate": integ}
