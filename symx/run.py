"""symx.run -- runs the harness tasks of one property on all cores, replays every solver
counterexample against the real code on the real numpy/scipy, applies the known-findings
list, writes the evidence file and prints the verdict.

exit 0  every obligation discharged on every path of every shape (known findings printed)
exit 1  a counterexample reproduced on the real code and not listed  (VIOLATION line)
exit 2  inconclusive: unknown/timeout, unmodelled operation, unreachable obligation,
        non-reproducing counterexample -- never reported as success
"""
import concurrent.futures as cf
import hashlib
import importlib
import json
import multiprocessing as mp
import os
import subprocess
import sys
import time
import traceback

VERIF = os.path.dirname(os.path.dirname(os.path.abspath(__file__)))
REPO = os.environ.get("SYMX_REPO", "/repo")
PY = os.path.join(VERIF, ".venv", "bin", "python")


def _alias_table():
    """regenerate the scipy share/copy table from the installed scipy (real numpy, subprocess)"""
    try:
        out = subprocess.run([PY, "-m", "symx.aliasprobe"], cwd=VERIF, capture_output=True, text=True, timeout=120)
        return {tuple(k.split("|")): v for k, v in json.loads(out.stdout).items()}
    except Exception as e:  # pragma: no cover
        raise SystemExit(f"alias probe failed: {e}")


def _worker(job):
    module, fn, shape, opts, alias, seed, idx = job
    t0 = time.time()
    res = dict(task=f"{module}.{fn}", shape=shape, idx=idx)
    cov = None
    try:
        sys.setrecursionlimit(10000)
        from symx import boot, core, ssp

        if os.environ.get("SYMX_COVER"):
            # audit aid (tools/cover.sh): which lines of the repository does the symbolic execution reach
            import coverage

            os.makedirs(os.environ["SYMX_COVER"], exist_ok=True)
            cov = coverage.Coverage(data_file=os.path.join(os.environ["SYMX_COVER"], f".coverage.{os.getpid()}.{idx}.{module}"), include=[os.path.join(os.environ.get("SYMX_REPO", "/repo"), "pygradflow", "*")])
            cov.start()
        boot.boot("sym")
        ssp.ALIAS.update(alias)
        mod = importlib.import_module("harness." + module)
        eopts = dict(opts or {})
        E = core.Engine(
            timeout_ms=eopts.pop("timeout_ms", 10000),
            nra=eopts.pop("nra", False),
            max_paths=eopts.pop("max_paths", 200000),
            max_time=eopts.pop("max_time", None),
            seed=seed,
        )
        E.exp_window = tuple(eopts.pop("exp_window", (-12, 12)))
        E.frexp_window = tuple(eopts.pop("frexp_window", (-12, 12)))
        for k, v in eopts.items():
            setattr(E, k, v)
        core.set_engine(E)
        E.base_tags = dict(module=module, fn=fn, shape=shape)
        orig_reset = E._reset_path

        def reset():
            orig_reset()
            E.tags.update(E.base_tags)

        E._reset_path = reset
        E.explore(getattr(mod, fn), shape)
        res.update(E.summary())
    except BaseException as ex:
        res.setdefault("stats", {})
        res.setdefault("obligations", {})
        res["errors"] = [f"worker died: {type(ex).__name__}: {ex}", traceback.format_exc()[-1500:]]
    if cov is not None:
        cov.stop()
        cov.save()
    res["wall_s"] = time.time() - t0
    return res


def load_known(path=None):
    path = path or os.path.join(VERIF, "known_findings.txt")
    known, fixed = [], []
    if os.path.exists(path):
        for line in open(path):
            line = line.strip()
            if not line or line.startswith("#"):
                continue
            kind, _, rest = line.partition(":")
            fields = dict(kv.split("=", 1) for kv in rest.split() if "=" in kv and kv.split("=", 1)[0] in ("property", "obligation", "site", "exception"))
            desc = rest
            (known if kind.strip() == "known" else fixed).append(dict(fields=fields, text=desc.strip()))
    return known, fixed


def _match_known(known, prop, oid, info):
    for k in known:
        f = k["fields"]
        if f.get("property") != prop:
            continue
        if f.get("obligation") and f["obligation"] != oid:
            continue
        if f.get("site") and not (info or {}).get("site", "").startswith(f["site"]):
            continue
        if f.get("exception") and (info or {}).get("exception") != f["exception"]:
            continue
        return k
    return None


def replay_file(prop, module, fn, shape, cex):
    d = os.path.join(VERIF, "replays", prop)
    os.makedirs(d, exist_ok=True)
    blob = dict(property=prop, module=module, fn=fn, shape=shape, cex=cex)
    h = hashlib.sha1(json.dumps(blob, sort_keys=True, default=str).encode()).hexdigest()[:10]
    safe = "".join(c if c.isalnum() or c in "._-" else "_" for c in cex["obligation"])
    p = os.path.join(d, f"{safe}-{h}.json")
    with open(p, "w") as f:
        json.dump(blob, f, indent=1, default=str)
    return p


def run_replay(path, timeout=300):
    """replays a recorded counterexample on the real code / real numpy in a fresh process.
    returns (reproduced: bool, detail)"""
    env = dict(os.environ, SYMX_MODE="concrete")
    p = subprocess.run([PY, "-m", "symx.replay", path], cwd=VERIF, capture_output=True, text=True, timeout=timeout, env=env)
    last = [l for l in p.stdout.strip().splitlines() if l.startswith("REPLAY ")]
    detail = last[-1] if last else (p.stdout[-500:] + p.stderr[-1500:])
    return p.returncode == 1, detail


def main(prop, tier="quick", seed=0, jobs=None):
    t0 = time.time()
    hmod = importlib.import_module("harness." + prop)
    tasks = hmod.tasks(tier)
    alias = _alias_table()
    nproc = jobs or int(os.environ.get("SYMX_JOBS", "0")) or os.cpu_count() or 4
    joblist = []
    for i, t in enumerate(tasks):
        o = dict(t.get("opts", {}))
        o.setdefault("cross_check", 3 if tier == "quick" else 12)
        # a shared harness states the obligations of several properties; only those this property is
        # decided by (OWNED prefixes and REQUIRED ids) are discharged in its run
        o.setdefault("only", list(getattr(hmod, "OWNED", None) or [prop]) + list(getattr(hmod, "REQUIRED", [])))
        joblist.append((t.get("module", prop), t["fn"], t.get("shape", {}), o, alias, seed, i))
    if seed:
        import random

        random.Random(seed).shuffle(joblist)
    results = []
    ctx = mp.get_context("fork")
    # one fresh process per task: harnesses monkeypatch modules of the code under test (oracle linear
    # solver, step oracle, clock, ...) and must not see each other's patches
    with ctx.Pool(processes=min(nproc, max(1, len(joblist))), maxtasksperchild=1) as pool:
        for r in pool.imap(_worker, joblist, chunksize=1):
            results.append(r)
    results.sort(key=lambda r: r["idx"])

    # ---- aggregate
    agg = dict(paths=0, decisions=0, queries=0, solver_s=0.0, forks=0, aborted=0, vacuous=0, unknown=0, truncated=0, crashed=0, infeasible=0, cross_checked=0, cross_inconclusive=0, cross_disagree=0, refinements=0, refuted_by_refinement=0, frexp_window_assumptions=0)
    obl = {}
    errors, notes, samples, unknowns = [], [], [], []
    cexs = []
    for r in results:
        st = r.get("stats", {})
        for k in agg:
            agg[k] += st.get(k, 0)
        for oid, o in r.get("obligations", {}).items():
            a = obl.setdefault(oid, dict(checked=0, proved=0, failed=0, unknown=0, reached=0))
            for k in ("checked", "proved", "failed", "unknown"):
                a[k] += o.get(k, 0)
            a["reached"] += o.get("reached", 0)
            for c in o.get("cex", []):
                cexs.append((r, oid, c))
        errors += [f"[{r['task']} {r['shape']}] {e}" for e in r.get("errors", [])]
        notes += r.get("notes", [])
        unknowns += r.get("unknown", [])
        for s in r.get("samples", []):
            if len(samples) < 10:
                samples.append(s)
    owned = getattr(hmod, "OWNED", None)  # obligation-id prefixes this property is decided by

    def is_owned(oid):
        if oid == "nocrash":
            return True
        if owned is None:
            return oid.startswith(prop)
        return any(oid.startswith(p) for p in owned)

    # ---- counterexamples -> replay on the real code
    known, fixed = load_known()
    violations, known_hits, nonrepro = [], [], []
    replays_run = 0
    groups = {}
    for r, oid, c in cexs:
        if not is_owned(oid):
            continue
        info = c.get("info") or {}
        gk = (oid, info.get("exception"), (info.get("site") or "").rsplit(":", 2)[0] + ":" + (info.get("site") or "").rsplit(":", 1)[-1]) if oid == "nocrash" else (oid,)
        groups.setdefault(gk, []).append((r, c))
    for gk, lst in groups.items():
        oid = gk[0]
        # smallest shapes / shortest paths first: they make the most readable replays
        lst.sort(key=lambda rc: (len(json.dumps(rc[0]["shape"], default=str)), len(rc[1].get("trace", []))))
        # ... taken round-robin over the shapes (a shape whose models do not replay must not use up all
        # attempts), shapes built for replayable models (concrete parameters) first
        by_shape = {}
        lst.sort(key=lambda rc: 0 if rc[1].get("refined") else 1)  # models of the real products first (stable sort)
        for rc in lst:
            by_shape.setdefault(json.dumps(rc[0]["shape"], sort_keys=True, default=str), []).append(rc)
        order = sorted(by_shape, key=lambda k: (0 if '"tame_box": true' in k else 1 if '"concrete_params": true' in k else 2, len(k)))
        picked, depth = [], 0
        while len(picked) < 12 and any(depth < len(by_shape[k]) for k in order):
            for k in order:
                if depth < len(by_shape[k]) and len(picked) < 12:
                    picked.append(by_shape[k][depth])
            depth += 1
        done = False
        for r, c in picked:
            info = c.get("info") or {}
            module, fn = r["task"].split(".", 1)
            path = replay_file(prop, module, fn, r["shape"], c)
            ok, detail = run_replay(path)
            replays_run += 1
            rec = dict(obligation=oid, shape=r["shape"], info=info, replay=path, detail=detail)
            if ok:
                k = _match_known(known, prop, oid, info)
                if k:
                    known_hits.append((k, rec))
                else:
                    violations.append(rec)
                done = True
                break
            nonrepro.append(rec)
        if done:
            nonrepro = [n for n in nonrepro if n["obligation"] != oid or oid == "nocrash"]
    # a counterexample that never reproduced for its (obligation, shape) is a harness problem
    unresolved = nonrepro

    # ---- differential validation of the model library: witness inputs of proved paths are
    # replayed on the real numpy/scipy; every obligation must hold there too
    wfiles = []
    for r in results:
        module, fn = r["task"].split(".", 1)
        for c in r.get("witnesses", [])[:2]:
            wfiles.append(replay_file(prop, module, fn, r["shape"], dict(c, obligation=f"witness{len(wfiles)}")))
    w_ok, w_mis, w_skip, w_detail = 0, 0, 0, []
    if wfiles:
        env = dict(os.environ, SYMX_MODE="concrete")
        pr = subprocess.run([PY, "-m", "symx.replay", "--batch"] + wfiles, cwd=VERIF, capture_output=True, text=True, timeout=1800, env=env)
        for line in pr.stdout.splitlines():
            if line.startswith("WITNESS ok"):
                w_ok += 1
            elif line.startswith("WITNESS mismatch"):
                w_mis += 1
                w_detail.append(line[:400])
            elif line.startswith("WITNESS skipped"):
                w_skip += 1
                if len(w_detail) < 6:
                    w_detail.append(line[:300])
        for f in wfiles:
            try:
                os.remove(f)
            except OSError:
                pass

    required = getattr(hmod, "REQUIRED", [])
    unreached = [oid for oid in required if obl.get(oid, {}).get("checked", 0) == 0]
    total_ob = sum(o["checked"] for oid, o in obl.items() if is_owned(oid))
    total_pr = sum(o["proved"] for oid, o in obl.items() if is_owned(oid))
    inconclusive = []
    if errors:
        inconclusive.append(f"{len(errors)} harness error(s)")
    if agg["unknown"] or any(o["unknown"] for o in obl.values()):
        inconclusive.append("solver returned unknown")
    if agg["truncated"]:
        inconclusive.append(f"exploration truncated ({agg['truncated']} prefixes pending)")
    if unreached:
        inconclusive.append(f"obligations never reached: {unreached}")
    if unresolved:
        inconclusive.append(f"{len(unresolved)} counterexample(s) did not reproduce on the real code")
    if agg["paths"] == 0:
        inconclusive.append("no path completed")

    wall = time.time() - t0
    meta = getattr(hmod, "META", {})
    ev = dict(
        property_id=prop,
        tier=tier,
        seed=int(seed),
        level="model_checking",
        wall_s=round(wall, 2),
        violations=len(violations),
        assumptions=meta.get("assumptions", []),
        coverage=dict(
            states=max(1, agg["paths"]),
            transitions=max(1, agg["decisions"] if agg.get("decisions") else agg["forks"] + agg["paths"]),
            traces_validated_against_impl=w_ok + replays_run,
            witness_replays=dict(ok=w_ok, mismatch=w_mis, skipped=w_skip, detail=w_detail[:8], what="inputs (solver models) of fully proved paths re-run on the real code with the real numpy/scipy; all obligations must hold there as well"),
            samples=samples or [dict(note="no symbolic obligation instance recorded")],
            explanation=meta.get("explanation", ""),
            functions_encoded=meta.get("functions_encoded", []),
            bounds=meta.get("bounds", {}).get(tier, meta.get("bounds", {})),
            outside_bounds=meta.get("outside", []),
            stubs=meta.get("stubs", []),
            obligations=total_ob,
            discharged=total_pr,
            per_obligation={k: v for k, v in sorted(obl.items()) if is_owned(k)},
            shared_obligations_seen={k: v["checked"] for k, v in sorted(obl.items()) if not is_owned(k)},
            tasks=len(tasks),
            paths=agg["paths"],
            paths_aborted_at_bound=agg["aborted"],
            branch_decisions=agg["decisions"],
            forks=agg["forks"],
            queries=agg["queries"],
            solver_time_s=round(agg["solver_s"], 2),
            unknown=agg["unknown"],
            vacuous_paths=agg["vacuous"],
            truncated_paths=agg["truncated"],
            crashed_paths=agg["crashed"],
            replays_run=replays_run,
            second_solver=dict(solver="cvc5 1.0.3 (binary)", obligations_re_decided_unsat=agg["cross_checked"], unknown_or_timeout=agg["cross_inconclusive"], disagreements=agg["cross_disagree"]),
            uf_arithmetic_refinements=dict(attempted=agg["refinements"], counterexamples_refuted=agg["refuted_by_refinement"]),
            frexp_window_assumptions=agg["frexp_window_assumptions"],
            known_findings_hit=[h[0]["text"] for h in known_hits],
            non_reproducing=[n["replay"] for n in unresolved],
            inconclusive=inconclusive,
            errors=errors[:10],
            notes=sorted(set(notes))[:10],
            alias_table={"|".join(k): v for k, v in alias.items()},
            engine="symx (z3 %s): real /repo source executed on a symbolic numpy/scipy model" % _z3v(),
            checker_cmd=f"./check {prop} --tier {tier}",
        ),
    )
    # evidence/<id>.json describes runs against /repo; a run against another tree (SYMX_REPO: seeded or
    # reverted scratch copies) writes its evidence next to that tree's scratch data instead
    ev_dir = os.path.join(VERIF, "evidence")
    other = os.environ.get("SYMX_REPO")
    if other and os.path.realpath(other) != os.path.realpath("/repo"):
        ev_dir = os.path.join("/var/tmp", "symx-evidence-other-tree")
    os.makedirs(ev_dir, exist_ok=True)
    with open(os.path.join(ev_dir, f"{prop}.json"), "w") as f:
        json.dump(ev, f, indent=1, default=str)

    print(f"[{prop}] tier={tier} tasks={len(tasks)} paths={agg['paths']} aborted={agg['aborted']} queries={agg['queries']} solver={agg['solver_s']:.1f}s obligations={total_pr}/{total_ob} wall={wall:.1f}s")
    for oid, o in sorted(obl.items()):
        if is_owned(oid):
            print(f"   {oid:55s} checked={o['checked']:6d} proved={o['proved']:6d} failed={o['failed']:4d} unknown={o['unknown']}")
    slow = sorted(results, key=lambda r: -r.get("wall_s", 0))[:3]
    print("   slowest tasks: " + "; ".join(f"{r['task']} {r['shape']} {r.get('wall_s', 0):.0f}s" for r in slow))
    print(f"   second solver (cvc5) on dumped obligations: {agg['cross_checked']} agree (unsat), {agg['cross_inconclusive']} unknown/timeout, {agg['cross_disagree']} disagree")
    print(f"   model-library cross-check: {w_ok} witness inputs of proved paths re-run on the real numpy/scipy agree, {w_mis} mismatch, {w_skip} skipped")
    for d in w_detail[:6]:
        if "mismatch" in d:
            print("   WARNING " + d)
    printed = set()
    for k, rec in known_hits:
        if k["text"] not in printed:
            printed.add(k["text"])
            print(f"KNOWN-FINDING: {k['text']}")
    for v in violations:
        print(f"VIOLATION property={prop} replay={v['replay']}")
        print(f"   obligation={v['obligation']} shape={v['shape']} {v['info'] or ''} :: {v['detail']}")
    if violations:
        return 1
    if inconclusive:
        print(f"INCONCLUSIVE property={prop}: " + "; ".join(inconclusive))
        for e in errors[:6]:
            print("   " + e[:1200])
        for n in unresolved[:4]:
            print(f"   non-reproducing: {n['obligation']} {n['shape']} {n['replay']} :: {n['detail'][:300]}")
        return 2
    return 0


def _z3v():
    try:
        import z3

        return z3.get_version_string()
    except Exception:
        return "?"
