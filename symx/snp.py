"""symx.snp -- the symbolic model of the part of numpy that pygradflow uses.

Arrays hold Python numbers, concrete +-inf, or symbolic scalars (core.SR/SI/SB).
Element-wise operations never fork (they build ite terms); only observing a data-dependent
*length* or a Python-level truth value asks the engine.  Slices are views (shared buffer),
boolean/integer-array selections are copies, exactly as in numpy; `flags.writeable` is
modelled so that writes to arrays pygradflow froze raise as numpy does.
"""
import builtins
import math as _math
import sys
import types

from . import core
from .core import SB, SF, SI, SR, HarnessError, ite, land, lnot, lor, sabs, smax, smin

try:
    import z3
except Exception:
    z3 = None

inf = float("inf")
nan = float("nan")
pi = _math.pi
newaxis = None


# ------------------------------------------------------------------ dtypes
class DType:
    def __init__(self, name, kind, aliases=()):
        self.name = name
        self.kind = kind
        self.aliases = aliases

    def __eq__(self, o):
        if isinstance(o, DType):
            return self.name == o.name
        return builtins.any(o is a for a in self.aliases) or o == self.name

    def __ne__(self, o):
        return not self.__eq__(o)

    def __hash__(self):
        return hash(self.name)

    def __repr__(self):
        return f"dtype('{self.name}')"

    def __call__(self, v=0):
        # np.float64(x) used as a constructor
        if self.kind == "f":
            if self.name == "float32" and getattr(core.ENG, "fp32_round", False):
                return _round32(v if core.is_sym(v) else builtins.float(v))  # np.float32(x) rounds like a float32 store
            return v if core.is_sym(v) else builtins.float(v)
        if self.kind == "i":
            return v if core.is_sym(v) else builtins.int(v)
        return builtins.bool(v)

    @property
    def type(self):
        return self


float64 = DType("float64", "f", (builtins.float,))
float32 = DType("float32", "f")
int64 = DType("int64", "i", (builtins.int,))
int32 = DType("int32", "i")
int16 = DType("int16", "i")
int8 = DType("int8", "i")
bool_ = DType("bool", "b", (builtins.bool,))
_ALL = [float64, float32, int64, int32, int16, int8, bool_]


def _dt(d, default=None):
    if d is None:
        return default or float64
    if isinstance(d, DType):
        return d
    for t in _ALL:
        if t == d:
            return t
    if isinstance(d, str):
        return {"f8": float64, "f4": float32, "i8": int64, "float": float64, "int": int64}[d]
    raise HarnessError(f"dtype {d!r}")


def _infer_dtype(items):
    k = "b"
    for v in items:
        if isinstance(v, (SB, builtins.bool)):
            continue
        if isinstance(v, (SI, builtins.int)):
            if k == "b":
                k = "i"
            continue
        return float64
    return bool_ if k == "b" and len(items) > 0 else (int64 if k == "i" else float64)


class finfo:
    def __init__(self, dt=None):
        self.eps = 2.0 ** -52 if _dt(dt) == float64 else 2.0 ** -23
        self.max = 1.7976931348623157e308 if _dt(dt) == float64 else 3.4028235e38
        self.tiny = 2.2250738585072014e-308


class _Flags:
    __slots__ = ("writeable", "owndata")

    def __init__(self, w=True):
        self.writeable = w
        self.owndata = True


def _trunc_int(v):
    """float -> integer dtype store (numpy truncates toward zero)"""
    if isinstance(v, SR):
        t = z3.If(v.e >= 0, z3.ToInt(v.e), -z3.ToInt(-v.e))
        return SI(t)
    if isinstance(v, builtins.float):
        return builtins.int(v)
    if isinstance(v, SB):
        return SI(z3.If(v.e, z3.IntVal(1), z3.IntVal(0)))
    return v


def _round32(v):
    """storing a real into a float32 slot (engine option fp32_round): an uninterpreted rounding
    R32 with what every rounding-to-nearest satisfies -- sign and zero kept, relative error at most
    2^-24 (absolute 2^-150 in the subnormal range), monotone on the values that occur, idempotent"""
    if isinstance(v, builtins.float):
        import struct

        return struct.unpack("f", struct.pack("f", v))[0] if v == v and abs(v) < 3.4e38 else v
    if not isinstance(v, SR):
        return v
    E = core.ENG
    if z3.is_app(v.e) and v.e.decl().name() == "R32":
        return v
    f = z3.Function("R32", z3.RealSort(), z3.RealSort())
    r = f(v.e)
    a = z3.If(v.e >= 0, v.e, -v.e)
    E.solver.add(
        z3.Implies(v.e == 0, r == 0),
        z3.Implies(v.e > 0, r >= 0),
        z3.Implies(v.e < 0, r <= 0),
        z3.Or(z3.And(r - v.e <= a * core._rv(2.0 ** -24), v.e - r <= a * core._rv(2.0 ** -24)), z3.And(a < core._rv(2.0 ** -126), r - v.e <= core._rv(2.0 ** -150), v.e - r <= core._rv(2.0 ** -150))),
    )
    E.solver.add(f(r) == r, f(-r) == -r)  # a float32 value (or its negative) is stored exactly
    for (w, rw) in getattr(E, "_r32s", []):
        E.solver.add(z3.Implies(v.e <= w, r <= rw), z3.Implies(v.e >= w, r >= rw))
    E._r32s = getattr(E, "_r32s", []) + [(v.e, r)]
    E._dirty = True
    E.uflog.append(("R32", [v.e], r))
    return SR(r, v.bad)


def _coerce(v, dt):
    if dt.kind == "i":
        return _trunc_int(v)
    if dt.kind == "f":
        if isinstance(v, SF):
            return v.to(32 if dt == float32 else 64)
        if isinstance(v, SI):
            return SR(z3.ToReal(v.e))
        if isinstance(v, SB):
            return ite(v, 1.0, 0.0)
        if isinstance(v, builtins.bool):
            return 1.0 if v else 0.0
        if isinstance(v, builtins.int):
            return builtins.float(v)
        if dt == float32 and getattr(core.ENG, "fp32_round", False):
            return _round32(v)
        return v
    if dt.kind == "b":
        if isinstance(v, (SB, builtins.bool)):
            return v
        return v != 0
    return v


def _prod(shape):
    r = 1
    for s in shape:
        r *= s
    return r


class ndarray:
    """n-d array (n <= 2) over a shared flat buffer; `_idx` lists buffer positions (views)."""

    __array_priority__ = 100

    def __init__(self, buf, idx, shape, dtype, writeable=True, base=None):
        self._buf = buf
        self._idx = idx
        self._shape = tuple(shape)
        self.dtype = dtype
        self.flags = _Flags(writeable)
        self.base = base

    # -- construction helpers
    @staticmethod
    def of(items, dtype=None, shape=None):
        items = list(items)
        dt = _dt(dtype) if dtype is not None else _infer_dtype(items)
        items = [_coerce(v, dt) for v in items]
        return ndarray(items, list(range(len(items))), shape if shape is not None else (len(items),), dt)

    @property
    def items(self):
        b = self._buf
        return [b[i] for i in self._idx]

    @property
    def shape(self):
        return self._shape

    @property
    def ndim(self):
        return len(self._shape)

    @property
    def size(self):
        return _prod(self._shape)

    @property
    def T(self):
        if self.ndim < 2:
            return self
        m, n = self._shape
        idx = [self._idx[i * n + j] for j in range(n) for i in range(m)]
        return ndarray(self._buf, idx, (n, m), self.dtype, self.flags.writeable, base=self)

    @property
    def data(self):
        return self

    def tobytes(self):
        return repr([repr(v) for v in self.items]).encode()

    def __len__(self):
        if self.ndim == 0:
            raise TypeError("len() of unsized object")
        return self._shape[0]

    def __iter__(self):
        if self.ndim == 1:
            return iter(self.items)
        return iter([self[i] for i in range(self._shape[0])])

    def copy(self):
        return ndarray.of(self.items, self.dtype, self._shape)

    def __copy__(self):
        # copy.copy(ndarray) is ndarray.__copy__ == a real copy
        return self.copy()

    def __deepcopy__(self, memo):
        return self.copy()

    def astype(self, dtype, copy=True):
        dt = _dt(dtype)
        if not copy and dt == self.dtype:
            return self
        return ndarray.of(self.items, dt, self._shape)

    def item(self, *a):
        if a:
            return self.items[a[0]]
        assert self.size == 1
        return self.items[0]

    def tolist(self):
        if self.ndim == 1:
            return self.items
        return [r.tolist() for r in self]

    def reshape(self, *shape):
        if len(shape) == 1 and isinstance(shape[0], tuple):
            shape = shape[0]
        shape = tuple(shape)
        if -1 in shape:
            k = _prod([s for s in shape if s != -1])
            shape = tuple(self.size // k if s == -1 else s for s in shape)
        assert _prod(shape) == self.size
        return ndarray(self._buf, list(self._idx), shape, self.dtype, self.flags.writeable, base=self)

    def ravel(self):
        return self.reshape(self.size)

    flatten = ravel

    # -- indexing
    def _check_w(self):
        if not self.flags.writeable:
            raise ValueError("assignment destination is read-only")

    def _norm_int(self, i, n):
        if isinstance(i, (SI, SR)):
            raise HarnessError("symbolic index")
        i = builtins.int(i)
        if i < 0:
            i += n
        if not 0 <= i < n:
            raise IndexError(f"index {i} is out of bounds for axis with size {n}")
        return i

    def __getitem__(self, key):
        if self.ndim == 2:
            return self._get2(key)
        if self.ndim == 0:
            if key is Ellipsis or (isinstance(key, tuple) and key == ()):
                return self if key is Ellipsis else self.items[0]
            if isinstance(key, ndarray) and key.dtype == bool_:
                return ndarray.of([self.items[0]] if builtins.bool(key.items[0]) else [], self.dtype)
            raise IndexError("too many indices for array: array is 0-dimensional")
        n = self._shape[0]
        if isinstance(key, tuple):
            if len(key) == 2 and key[1] is None and isinstance(key[0], slice):
                sub = self[key[0]]
                return ndarray(sub._buf, sub._idx, (len(sub._idx), 1), self.dtype, self.flags.writeable, base=self)
            if len(key) == 1:
                return self[key[0]]
            raise HarnessError(f"1-d index {key!r}")
        if isinstance(key, slice):
            idx = self._idx[key]
            return ndarray(self._buf, idx, (len(idx),), self.dtype, self.flags.writeable, base=self)
        if isinstance(key, ndarray):
            if key.dtype == bool_:
                assert key.shape == self._shape, "boolean index shape mismatch"
                m = key.items
                if builtins.any(isinstance(x, SB) for x in m):
                    return MaskedView(self.items, m, self.dtype)
                return ndarray.of([v for v, k in zip(self.items, m) if k], self.dtype)
            it = self.items
            return ndarray.of([it[self._norm_int(j, n)] for j in key.items], self.dtype)
        if isinstance(key, (list, tuple)):
            return self[array(key)]
        if key is None:
            return ndarray(self._buf, list(self._idx), (1, n), self.dtype, self.flags.writeable, base=self)
        if key is Ellipsis:
            return self
        return self._buf[self._idx[self._norm_int(key, n)]]

    def _get2(self, key):
        m, n = self._shape
        if not isinstance(key, tuple):
            key = (key, slice(None))
        r, c = key
        if isinstance(r, ndarray) and r.dtype == bool_ and r.ndim == 2:
            raise HarnessError("2-d boolean index")
        rows = list(range(m))[r] if isinstance(r, slice) else None
        cols = list(range(n))[c] if isinstance(c, slice) else None
        if rows is None and isinstance(r, ndarray):
            rr = [self._norm_int(j, m) for j in r.items]
            cc = cols if cols is not None else [self._norm_int(c, n)]
            idx = [self._idx[i * n + j] for i in rr for j in cc]
            out = ndarray.of([self._buf[k] for k in idx], self.dtype, (len(rr), len(cc)) if cols is not None else (len(rr),))
            return out
        if rows is not None and cols is not None:
            idx = [self._idx[i * n + j] for i in rows for j in cols]
            return ndarray(self._buf, idx, (len(rows), len(cols)), self.dtype, self.flags.writeable, base=self)
        if rows is None and cols is not None:
            i = self._norm_int(r, m)
            idx = [self._idx[i * n + j] for j in cols]
            return ndarray(self._buf, idx, (len(cols),), self.dtype, self.flags.writeable, base=self)
        if rows is not None and cols is None:
            if c is None:
                raise HarnessError("2-d newaxis")
            j = self._norm_int(c, n)
            idx = [self._idx[i * n + j] for i in rows]
            return ndarray(self._buf, idx, (len(rows),), self.dtype, self.flags.writeable, base=self)
        return self._buf[self._idx[self._norm_int(r, m) * n + self._norm_int(c, n)]]

    def __setitem__(self, key, val):
        self._check_w()
        dt = self.dtype
        if self.ndim == 0:
            # 0-d array: a[()] = v, a[...] = v, a[mask0d] = v
            if isinstance(val, ndarray):
                assert val.size == 1
                val = val.items[0]
            if isinstance(key, ndarray) and key.dtype == bool_:
                m = key.items[0]
                self._buf[self._idx[0]] = _coerce(ite(m, val, self._buf[self._idx[0]]), dt)
            elif key is Ellipsis or key == ():
                self._buf[self._idx[0]] = _coerce(val, dt)
            else:
                raise IndexError("too many indices for array: array is 0-dimensional")
            return
        if self.ndim == 2:
            tgt = self._get2(key)
            if isinstance(tgt, ndarray):
                vals = val.items if isinstance(val, ndarray) else [val] * tgt.size
                assert len(vals) == tgt.size
                for k, v in zip(tgt._idx, vals):
                    self._buf[k] = _coerce(v, dt)
            else:
                m, n = self._shape
                r, c = key
                self._buf[self._idx[self._norm_int(r, m) * n + self._norm_int(c, n)]] = _coerce(val, dt)
            return
        n = self._shape[0]
        if isinstance(key, slice):
            idx = self._idx[key]
            vals = val.items if isinstance(val, ndarray) else [val] * len(idx)
            if len(vals) != len(idx):
                if len(vals) == 1:
                    vals = vals * len(idx)
                else:
                    raise ValueError(f"could not broadcast input array from shape ({len(vals)},) into shape ({len(idx)},)")
            for k, v in zip(idx, vals):
                self._buf[k] = _coerce(v, dt)
            return
        if isinstance(key, ndarray):
            if key.dtype == bool_:
                assert key.shape == self._shape, "boolean index shape mismatch"
                m = key.items
                sym = builtins.any(isinstance(x, SB) for x in m)
                if isinstance(val, MaskedView):
                    # x[mask] = f(y[mask]) with the same (symbolic) mask
                    val._same_mask(m)
                    for k, mk, v in zip(self._idx, m, val.items):
                        self._buf[k] = _coerce(ite(mk, v, self._buf[k]), dt)
                    return
                if isinstance(val, ndarray):
                    if sym:
                        m = [builtins.bool(x) for x in m]  # data-dependent length: decide the mask
                    vs = iter(val.items)
                    cnt = builtins.sum(1 for x in m if x)
                    if val.size != cnt:
                        if val.size == 1:
                            vs = iter(val.items * cnt)
                        else:
                            raise ValueError(f"NumPy boolean array indexing assignment cannot assign {val.size} input values to the {cnt} output values where the mask is true")
                    for k, mk in zip(self._idx, m):
                        if mk:
                            self._buf[k] = _coerce(next(vs), dt)
                    return
                for k, mk in zip(self._idx, m):
                    self._buf[k] = _coerce(ite(mk, val, self._buf[k]), dt)
                return
            idxs = [self._norm_int(j, n) for j in key.items]
            vals = val.items if isinstance(val, ndarray) else [val] * len(idxs)
            if len(vals) != len(idxs):
                raise ValueError("shape mismatch: value array cannot be broadcast to indexing result")
            for j, v in zip(idxs, vals):
                self._buf[self._idx[j]] = _coerce(v, dt)
            return
        if key is Ellipsis:
            self[slice(None)] = val
            return
        j = self._norm_int(key, n)
        if isinstance(val, ndarray):
            assert val.size == 1
            val = val.items[0]
        self._buf[self._idx[j]] = _coerce(val, dt)

    # -- arithmetic
    def _bin(a, b, f, dt=None, rev=False):
        if isinstance(b, MaskedView) and not isinstance(a, MaskedView):
            return NotImplemented
        ai = a.items
        if isinstance(b, ndarray):
            if b._shape == a._shape:
                bi = b.items
                shape = a._shape
            elif b.size == 1:
                bi = b.items * len(ai)
                shape = a._shape
            elif a.size == 1:
                bi = b.items
                ai = ai * len(bi)
                shape = b._shape
            elif a.ndim == 2 and b.ndim == 1 and a._shape[1] == b._shape[0]:
                bi = b.items * a._shape[0]
                shape = a._shape
            elif a.ndim == 1 and b.ndim == 2 and b._shape[1] == a._shape[0]:
                ai = ai * b._shape[0]
                bi = b.items
                shape = b._shape
            else:
                raise ValueError(f"operands could not be broadcast together with shapes {a._shape} {b._shape}")
            bdt = b.dtype
        elif isinstance(b, (builtins.int, builtins.float, SR, SI, SB, builtins.bool)):
            bi = [b] * len(ai)
            shape = a._shape
            bdt = None
        else:
            return NotImplemented
        if rev:
            out = [f(y, x) for x, y in zip(ai, bi)]
        else:
            out = [f(x, y) for x, y in zip(ai, bi)]
        if dt is None:
            dt = _res_dtype(a.dtype, bdt, b)
        return a._wrap(out, dt, shape)

    def _wrap(self, out, dt, shape):
        return ndarray.of(out, dt, shape)

    def __add__(a, b):
        return a._bin(b, lambda x, y: x + y)

    def __radd__(a, b):
        return a._bin(b, lambda x, y: x + y, rev=True)

    def __sub__(a, b):
        return a._bin(b, lambda x, y: x - y)

    def __rsub__(a, b):
        return a._bin(b, lambda x, y: x - y, rev=True)

    def __mul__(a, b):
        return a._bin(b, _mul)

    def __rmul__(a, b):
        return a._bin(b, _mul, rev=True)

    def __truediv__(a, b):
        return a._bin(b, _div, float64)

    def __rtruediv__(a, b):
        return a._bin(b, _div, float64, rev=True)

    def __pow__(a, p):
        return a._wrap([_pow(x, p) for x in a.items], a.dtype if a.dtype.kind == "f" else float64, a._shape)

    def __neg__(a):
        return a._wrap([-x for x in a.items], a.dtype, a._shape)

    def __pos__(a):
        return a

    def __abs__(a):
        return a._wrap([sabs(x) for x in a.items], a.dtype, a._shape)

    def __invert__(a):
        assert a.dtype == bool_
        return a._wrap([lnot(x) for x in a.items], bool_, a._shape)

    def __and__(a, b):
        return a._bin(b, land, bool_)

    __rand__ = __and__

    def __or__(a, b):
        return a._bin(b, lor, bool_)

    __ror__ = __or__

    def _inplace(a, b, f):
        a._check_w()
        r = a._bin(b, f)
        if r is NotImplemented:
            return r
        if r._shape != a._shape:
            raise ValueError("non-broadcastable output operand")
        for k, v in zip(a._idx, r.items):
            a._buf[k] = _coerce(v, a.dtype)
        return a

    def __iadd__(a, b):
        return a._inplace(b, lambda x, y: x + y)

    def __iand__(a, b):
        assert a.dtype == bool_
        return a._inplace(b, land)

    def __ior__(a, b):
        assert a.dtype == bool_
        return a._inplace(b, lor)

    def __xor__(a, b):
        return a._bin(b, lambda x, y: lor(land(x, lnot(y)), land(lnot(x), y)), bool_)

    def __isub__(a, b):
        return a._inplace(b, lambda x, y: x - y)

    def __imul__(a, b):
        return a._inplace(b, _mul)

    def __itruediv__(a, b):
        if a.dtype.kind != "f":
            raise TypeError("Cannot cast ufunc 'divide' output from dtype('float64') to dtype('int64')")
        return a._inplace(b, _div)

    def __le__(a, b):
        return a._bin(b, lambda x, y: x <= y, bool_)

    def __lt__(a, b):
        return a._bin(b, lambda x, y: x < y, bool_)

    def __ge__(a, b):
        return a._bin(b, lambda x, y: x >= y, bool_)

    def __gt__(a, b):
        return a._bin(b, lambda x, y: x > y, bool_)

    def __eq__(a, b):
        if b is None:
            return False
        return a._bin(b, _eq, bool_)

    def __ne__(a, b):
        if b is None:
            return True
        return a._bin(b, lambda x, y: lnot(_eq(x, y)), bool_)

    __hash__ = None

    def __bool__(self):
        if self.size != 1:
            raise ValueError("The truth value of an array with more than one element is ambiguous. Use a.any() or a.all()")
        return builtins.bool(self.items[0])

    def __float__(self):
        assert self.size == 1
        v = self.items[0]
        if core.is_sym(v):
            raise HarnessError("float() of symbolic array element")
        return builtins.float(v)

    def __matmul__(a, b):
        return dot(a, b)

    def __rmatmul__(a, b):
        return dot(b, a)

    # -- reductions
    def _truth(self):
        # numpy's truth value of a number: non-zero
        return [x if isinstance(x, (SB, builtins.bool)) else (x != 0) for x in self.items]

    def all(self, axis=None):
        return builtins.bool(land(*self._truth())) if self.items else True

    def any(self, axis=None):
        return builtins.bool(lor(*self._truth())) if self.items else False

    def sum(self, axis=None):
        if axis is not None and self.ndim == 2:
            m, n = self._shape
            it = self.items
            if axis == 0:
                return ndarray.of([_sum([it[i * n + j] for i in range(m)]) for j in range(n)])
            return ndarray.of([_sum(it[i * n : (i + 1) * n]) for i in range(m)])
        return _sum(self.items)

    def max(self, axis=None, initial=None):
        it = self.items
        if not it:
            if initial is not None:
                return initial
            raise ValueError("zero-size array to reduction operation maximum which has no identity")
        r = it[0]
        for v in it[1:]:
            r = smax(r, v)
        return r

    def min(self, axis=None):
        it = self.items
        if not it:
            raise ValueError("zero-size array to reduction operation minimum which has no identity")
        r = it[0]
        for v in it[1:]:
            r = smin(r, v)
        return r

    def dot(a, b):
        return dot(a, b)

    def nonzero(self):
        return where(self != 0)

    def fill(self, v):
        self[slice(None)] = v

    def __repr__(self):
        return f"<symarray {self._shape} {self.dtype.name}>"

    def __format__(self, spec):
        return repr(self)


def _res_dtype(adt, bdt, b):
    if bdt is None:
        if isinstance(b, (builtins.float, SR)):
            return float64 if adt.kind != "f" else adt
        if isinstance(b, (builtins.bool, SB)):
            return adt
        if isinstance(b, (builtins.int, SI)):
            return int64 if adt.kind == "b" else adt
        return adt
    if adt.kind == "f" and bdt.kind == "f":
        return float64 if float64 in (adt, bdt) else float32
    if adt.kind == "f":
        return adt
    if bdt.kind == "f":
        return bdt
    if adt.kind == "i" or bdt.kind == "i":
        return int64
    return bool_


def _mul(x, y):
    if isinstance(x, (SB, builtins.bool)) and isinstance(y, (SB, builtins.bool)):
        return land(x, y)
    if isinstance(x, SB):
        return ite(x, y, 0 if isinstance(y, (SI, builtins.int)) else 0.0)
    if isinstance(y, SB):
        return ite(y, x, 0 if isinstance(x, (SI, builtins.int)) else 0.0)
    return x * y


def _div(x, y):
    if not core.is_sym(y) and not core._isinf(y) and y == 0:
        if core.is_sym(x):
            raise HarnessError("symbolic / 0")
        if x == 0:
            return nan
        return inf if x > 0 else -inf
    if isinstance(x, SI):
        x = SR(z3.ToReal(x.e))
    if isinstance(y, SI):
        y = SR(z3.ToReal(y.e))
    if isinstance(x, builtins.int) and isinstance(y, builtins.int):
        return x / y
    return x / y


def _pow(x, p):
    if isinstance(x, SR):
        return x ** p
    return x ** p


def _eq(x, y):
    if isinstance(x, (SB, builtins.bool)) and isinstance(y, (SB, builtins.bool)):
        return core.iff(x, y)
    return x == y


def _sum(items):
    r = 0
    first = True
    for x in items:
        if isinstance(x, SB):
            x = SI(z3.If(x.e, z3.IntVal(1), z3.IntVal(0)))
        elif isinstance(x, builtins.bool):
            x = builtins.int(x)
        r = x if first else r + x
        first = False
    if first:
        return 0.0
    return r


class MaskedView(ndarray):
    """x[mask] with a symbolic mask: all elements + the mask.  Supports element-wise use,
    assignment back under the same mask and masked reductions, without forking.  Observing
    the (data dependent) length decides the mask by forking."""

    def __init__(self, items, mask, dtype):
        items = list(items)
        ndarray.__init__(self, items, list(range(len(items))), (len(items),), dtype)
        self.mask = list(mask)

    def _same_mask(self, m):
        if len(m) != len(self.mask):
            raise HarnessError("masked assignment under a different mask")
        for a, b in zip(m, self.mask):
            if a is b:
                continue
            ea = core._be(a)
            eb = core._be(b)
            if not ea.eq(eb):
                raise HarnessError("masked assignment under a different mask")

    def _wrap(self, out, dt, shape):
        return MaskedView(out, self.mask, dt)

    def _bin(a, b, f, dt=None, rev=False):
        if isinstance(b, MaskedView):
            a._same_mask(b.mask)
            bi = b.items
            bdt = b.dtype
        elif isinstance(b, ndarray):
            if b.size == 1:
                bi = b.items * len(a.items)
            else:
                raise HarnessError("masked view combined with a plain array")
            bdt = b.dtype
        else:
            bi = [b] * len(a.items)
            bdt = None
        ai = a.items
        out = [f(y, x) for x, y in zip(ai, bi)] if rev else [f(x, y) for x, y in zip(ai, bi)]
        return MaskedView(out, a.mask, dt or _res_dtype(a.dtype, bdt, b))

    def concretize(self):
        keep = [builtins.bool(m) for m in self.mask]
        return ndarray.of([v for v, k in zip(self.items, keep) if k], self.dtype)

    @property
    def shape(self):
        return self.concretize().shape

    @property
    def size(self):
        return self.concretize().size

    def __len__(self):
        return len(self.concretize())

    def __iter__(self):
        return iter(self.concretize())

    def copy(self):
        return MaskedView(self.items, self.mask, self.dtype)

    def astype(self, dtype, copy=True):
        return MaskedView([_coerce(v, _dt(dtype)) for v in self.items], self.mask, _dt(dtype))

    def all(self, axis=None):
        return builtins.bool(land(*[lor(lnot(m), x) for x, m in zip(self.items, self.mask)])) if self.items else True

    def any(self, axis=None):
        return builtins.bool(lor(*[land(m, x) for x, m in zip(self.items, self.mask)])) if self.items else False

    def sum(self, axis=None):
        return _sum([ite(m, x, 0.0 if self.dtype.kind == "f" else 0) for x, m in zip(self.items, self.mask)])

    def _fold(self, f):
        # reduction over the selected elements; raises like numpy if the selection is empty
        if not self.mask or not builtins.bool(lor(*self.mask)):
            raise ValueError("zero-size array to reduction operation which has no identity")
        have = False
        acc = None
        for x, m in zip(self.items, self.mask):
            if acc is None:
                acc, have = x, m
            else:
                acc = ite(land(m, have), f(acc, x), ite(m, x, acc))
                have = lor(have, m)
        return acc

    def max(self, axis=None, initial=None):
        return self._fold(smax)

    def min(self, axis=None):
        return self._fold(smin)

    def __getitem__(self, key):
        return self.concretize()[key]

    def __setitem__(self, key, val):
        raise HarnessError("assignment into a masked selection (numpy would assign into a temporary)")


# ------------------------------------------------------------------ constructors
def _shape_of(shape):
    if isinstance(shape, (builtins.int,)):
        return (shape,)
    return tuple(builtins.int(s) for s in shape)


def array(obj, dtype=None, copy=True):
    if isinstance(obj, MaskedView):
        obj = obj.concretize()
    if isinstance(obj, ndarray):
        return ndarray.of(obj.items, dtype if dtype is not None else obj.dtype, obj.shape)
    if isinstance(obj, (list, tuple)):
        if obj and isinstance(obj[0], (list, tuple, ndarray)):
            rows = [list(r.items) if isinstance(r, ndarray) else list(r) for r in obj]
            n = len(rows[0])
            assert builtins.all(len(r) == n for r in rows)
            flat = [v for r in rows for v in r]
            return ndarray.of(flat, dtype, (len(rows), n))
        if len(obj) == 0:
            return ndarray.of([], dtype if dtype is not None else float64)
        return ndarray.of(list(obj), dtype)
    if hasattr(obj, "__iter__"):
        return array(list(obj), dtype)
    return ndarray.of([obj], dtype, ())


def asarray(obj, dtype=None):
    if isinstance(obj, ndarray) and not isinstance(obj, MaskedView) and (dtype is None or _dt(dtype) == obj.dtype):
        return obj
    return array(obj, dtype)


ascontiguousarray = asarray


def zeros(shape, dtype=None):
    dt = _dt(dtype)
    sh = _shape_of(shape)
    z = 0.0 if dt.kind == "f" else (0 if dt.kind == "i" else False)
    return ndarray.of([z] * _prod(sh), dt, sh)


def ones(shape, dtype=None):
    dt = _dt(dtype)
    sh = _shape_of(shape)
    o = 1.0 if dt.kind == "f" else (1 if dt.kind == "i" else True)
    return ndarray.of([o] * _prod(sh), dt, sh)


def empty(shape, dtype=None):
    return zeros(shape, dtype)


def full(shape, fill_value, dtype=None):
    sh = _shape_of(shape)
    dt = _dt(dtype) if dtype is not None else _infer_dtype([fill_value])
    return ndarray.of([fill_value] * _prod(sh), dt, sh)


def zeros_like(a, dtype=None):
    return zeros(a.shape, dtype or a.dtype)


def ones_like(a, dtype=None):
    return ones(a.shape, dtype or a.dtype)


def empty_like(a, dtype=None):
    return zeros(a.shape, dtype or a.dtype)


def full_like(a, fill_value, dtype=None):
    return full(a.shape, _coerce(fill_value, _dt(dtype or a.dtype)), dtype or a.dtype)


def arange(*a, dtype=None):
    return ndarray.of(list(range(*[builtins.int(x) for x in a])), dtype or int64)


def copy(a):
    if isinstance(a, ndarray):
        return a.copy()
    return a


def eye(n, dtype=None):
    return array([[1.0 if i == j else 0.0 for j in range(n)] for i in range(n)])


def diag_indices(n):
    return (arange(n), arange(n))


def _conc(a):
    if isinstance(a, MaskedView):
        return a.concretize()
    if isinstance(a, ndarray):
        return a
    if isinstance(a, (list, tuple)):
        return array(a)
    return ndarray.of([a], None, (1,))


def concatenate(xs, axis=0):
    xs = [_conc(x) for x in xs]
    out = []
    dt = None
    for x in xs:
        assert x.ndim == 1, "concatenate models 1-d only"
        out.extend(x.items)
        dt = x.dtype if dt is None else _res_dtype(dt, x.dtype, None)
    return ndarray.of(out, dt)


def hstack(xs):
    return concatenate([atleast_1d(x) for x in xs])


def vstack(xs):
    rows = [atleast_1d(_conc(x)) for x in xs]
    n = rows[0].shape[-1]
    flat = []
    for r in rows:
        assert r.ndim == 1 and r.shape[0] == n
        flat.extend(r.items)
    return ndarray.of(flat, rows[0].dtype, (len(rows), n))


def split(a, idx):
    out = []
    prev = 0
    for i in list(idx) + [len(a)]:
        out.append(a[prev:i])
        prev = i
    return out


def atleast_1d(a):
    if isinstance(a, ndarray):
        if a.ndim == 0:
            return a.reshape(1)
        return a
    return ndarray.of([a], None, (1,))


def atleast_2d(a):
    a = atleast_1d(a)
    if a.ndim == 1:
        return a.reshape(1, a.shape[0])
    return a


def broadcast_to(x, shape):
    sh = _shape_of(shape)
    if isinstance(x, ndarray):
        if x.shape == sh:
            return ndarray(x._buf, list(x._idx), sh, x.dtype, False, base=x)
        if x.size == 1:
            return ndarray(x._buf, list(x._idx) * _prod(sh), sh, x.dtype, False, base=x)
        raise ValueError(f"operands could not be broadcast together with remapped shapes [original->remapped]: {x.shape} and requested shape {sh}")
    r = full(sh, x)
    r.flags.writeable = False
    return r


def shares_memory(a, b):
    return a._buf is b._buf and builtins.bool(set(a._idx) & set(b._idx))


# ------------------------------------------------------------------ element-wise functions
def _map(a, f, dt=None):
    if isinstance(a, ndarray):
        return a._wrap([f(x) for x in a.items], dt or a.dtype, a._shape if not isinstance(a, MaskedView) else None)
    return f(a)


def _map2(a, b, f, dt=None):
    if isinstance(a, ndarray):
        return a._bin(b, f, dt)
    if isinstance(b, ndarray):
        return b._bin(a, f, dt, rev=True)
    return f(a, b)


def absolute(a):
    return _map(a, sabs)


abs = absolute


def maximum(a, b):
    return _map2(a, b, smax)


def minimum(a, b):
    return _map2(a, b, smin)


def logical_and(a, b):
    return _map2(a, b, land, bool_)


def logical_or(a, b):
    return _map2(a, b, lor, bool_)


def logical_not(a):
    return _map(a, lnot, bool_)


def sign(a):
    return _map(a, lambda x: ite(x > 0, 1.0, ite(x < 0, -1.0, 0.0)))


def clip(x, lo, hi, out=None):
    def c1(v, l, h):
        r = v
        if l is not None:
            r = smax(r, l)
        if h is not None:
            r = smin(r, h)
        return r

    if isinstance(x, ndarray):
        n = len(x.items)

        def seq(b):
            if isinstance(b, MaskedView):
                x._same_mask(b.mask) if isinstance(x, MaskedView) else (_ for _ in ()).throw(HarnessError("clip mask"))
                return b.items
            if isinstance(b, ndarray):
                assert len(b.items) == n or b.size == 1
                return b.items if len(b.items) == n else b.items * n
            return [b] * n

        r = x._wrap([c1(v, l, h) for v, l, h in zip(x.items, seq(lo), seq(hi))], x.dtype, x._shape if not isinstance(x, MaskedView) else None)
        if out is not None:
            out[slice(None)] = r
            return out
        return r
    return c1(x, lo, hi)


def where(c, a=None, b=None):
    if a is None:
        c = _conc(c)
        if c.ndim == 2:
            m, n = c.shape
            nz = [(i, j) for i in range(m) for j in range(n) if builtins.bool(c.items[i * n + j])]
            return (ndarray.of([i for i, j in nz], int64), ndarray.of([j for i, j in nz], int64))
        # data-dependent length: decide each element (forks once per undecided element)
        return (ndarray.of([i for i, m in enumerate(c.items) if builtins.bool(m)], int64),)
    if isinstance(c, ndarray):
        n = len(c.items)
        ai = a.items if isinstance(a, ndarray) else [a] * n
        bi = b.items if isinstance(b, ndarray) else [b] * n
        return ndarray.of([ite(k, x, y) for k, x, y in zip(c.items, ai, bi)], None, c.shape)
    return ite(c, a, b)


def select(condlist, choicelist, default=0):
    """first matching condition wins (numpy.select)"""
    if len(condlist) != len(choicelist):
        raise ValueError("list of cases must be same length as list of conditions")
    conds = [_conc(c) if isinstance(c, ndarray) else c for c in condlist]
    shp = None
    for c in list(conds) + list(choicelist):
        if isinstance(c, ndarray) and c.ndim >= 1:
            shp = c.shape
            break
    n = 1
    for d in shp or ():
        n *= d

    def elems(v):
        if isinstance(v, ndarray) and v.ndim >= 1:
            return list(_conc(v).items)
        if isinstance(v, ndarray):
            return [v.items[0]] * n
        return [v] * n

    out = elems(default)
    for c, ch in reversed(list(zip(conds, choicelist))):
        ci, xi = elems(c), elems(ch)
        out = [ite(k, x, y) for k, x, y in zip(ci, xi, out)]
    if shp is None:
        return out[0]
    return ndarray.of(out, None, shp)


def isclose(a, b, rtol=1e-5, atol=1e-8, equal_nan=False):
    def f(x, y):
        if core._isinf(x) or core._isinf(y):
            return (not core.is_sym(x)) and (not core.is_sym(y)) and x == y
        return sabs(x - y) <= atol + rtol * sabs(y)

    return _map2(a, b, f, bool_)


def allclose(a, b, rtol=1e-5, atol=1e-8):
    r = isclose(a, b, rtol, atol)
    if isinstance(r, ndarray):
        return r.all()
    return builtins.bool(r)


def array_equal(a, b):
    if a.shape != b.shape:
        return False
    return (a == b).all()


def _finite1(v):
    if isinstance(v, SF):
        return lnot(lor(v.isnan(), v.isinf()))
    if isinstance(v, SR):
        return True if v.bad is None else SB(z3.Not(v.bad))
    if core.is_sym(v):
        return True
    return _math.isfinite(v)


def isfinite(a):
    return _map(a, _finite1, bool_)


def isinf(a):
    return _map(a, lambda v: (not core.is_sym(v)) and _math.isinf(v), bool_)


def isnan(a):
    return _map(a, lambda v: (not core.is_sym(v)) and _math.isnan(v), bool_)


class _Unusable:
    def __init__(self, what):
        self.what = what

    def __getattr__(self, k):
        raise HarnessError(f"use of {self.what}")


class SSqrt(SR):
    """sqrt(v) kept lazy (exponent model): only its binary exponent is ever asked for, which is
    a threshold test on the radicand; any arithmetic use falls back to r >= 0, r*r = v."""

    __slots__ = ("rad", "_e")

    def __init__(self, rad):
        self.rad = rad
        self.bad = rad.bad
        self.recip = None
        self.sumsq = None
        self._e = None

    @property
    def e(self):
        if self._e is None:
            E = core.ENG
            r = E.fresh_real("sqrt", register=False)
            E.solver.add(r.e >= 0, r.e * r.e == self.rad.e)
            E._dirty = True
            self._e = r.e
        return self._e


def _sqrt1(v):
    if isinstance(v, SI):
        v = SR(z3.ToReal(v.e))
    if not isinstance(v, SR):
        return _math.sqrt(v)
    E = core.ENG
    if getattr(E, "sqrt_model", None) == "lazy":
        return SSqrt(v)
    if v.sumsq is not None and getattr(E, "norm_model", "linear") == "linear":
        ab = [sabs(x) for x in v.sumsq]
        if len(ab) == 1:
            return ab[0]
        return _linear_norm(E, list(v.sumsq), ab, v.bad)
    r = E.fresh_real("sqrt", register=False)
    E.solver.add(r.e >= 0, r.e * r.e == v.e)
    E._dirty = True
    r.bad = v.bad
    return r


def _linear_norm(E, vec, ab, bad):
    """2-norm of a vector of length >= 2 kept inside linear arithmetic: a fresh r with the valid
    facts  max|v_i| <= r <= sum|v_i|,  the triangle inequality  r <= sum r_a  whenever v is
    (syntactically) the sum of vectors whose norms were taken before, and the block rule
    |(v1,v2)| <= |v1| + |v2|.  Every fact holds for the Euclidean norm, so the model
    over-approximates it (sound for proofs; counterexamples are replayed concretely)."""
    r = E.fresh_real("norm", register=False)
    tot = ab[0]
    for x in ab[1:]:
        tot = tot + x
    E.solver.add(*([r.e >= core.zexpr(x) for x in ab] + [r.e <= core.zexpr(tot)]))
    ve = [core.zexpr(x) for x in vec]
    reg = E.__dict__.setdefault("_norms", {})
    if reg.get("path") is not E.trace:
        reg.clear()
        reg["path"] = E.trace
        reg["items"] = []
    items = reg["items"]

    def upper(sub):
        """a linear upper bound on |sub| from registered norms, or None"""
        if len(sub) == 1:
            return z3.If(sub[0] >= 0, sub[0], -sub[0])
        same = [(w, rw) for (w, rw) in items if len(w) == len(sub)]

        def fits(pick):
            return builtins.all(z3.is_true(z3.simplify(sub[i] - builtins.sum([w[i] for w, _ in pick][1:], pick[0][0][i]) == 0)) for i in range(len(sub)))

        # the same vector again (any earlier norm), then sums of two of the last 12, then any
        # subset of the last 6
        for c in reversed(same):
            if fits([c]):
                return c[1]
        last = same[-12:]
        for i in range(len(last)):
            for j in range(i + 1, len(last)):
                if fits([last[i], last[j]]):
                    return last[i][1] + last[j][1]
        cands = same[-6:]
        n = len(cands)
        for mask in range(1, 1 << n):
            pick = [cands[i] for i in range(n) if mask >> i & 1]
            if len(pick) > 2 and fits(pick):
                return builtins.sum([rw for _, rw in pick][1:], pick[0][1])
        return None

    u = upper(ve)
    if u is not None:
        E.solver.add(r.e <= u)
    for p in range(1, len(ve)):
        a, b = upper(ve[:p]), upper(ve[p:])
        if a is not None and b is not None:
            E.solver.add(r.e <= a + b)
    items.append((ve, r.e))
    E._dirty = True
    r.bad = bad
    return r


def sqrt(a):
    return _map(a, _sqrt1, float64)


def square(a):
    return _map(a, lambda v: v * v)


# power-of-two model ------------------------------------------------------------------
def _ldexp1(v, e):
    if isinstance(e, ndarray) and e.size == 1:
        e = e.items[0]
    if isinstance(v, ndarray) and v.size == 1:
        v = v.items[0]
    if isinstance(e, SI):
        E = core.ENG
        lo, hi = E.exp_window
        if core._isinf(v):
            return v
        if not core.is_sym(v) and v == 0:
            return 0.0
        # v * 2^e as a table over the window; outside the window is outside the claim
        E.solver.add(e.e >= lo, e.e <= hi)
        E._dirty = True
        r = None
        for k in range(hi, lo - 1, -1):
            t = v * (2.0 ** k)
            r = t if r is None else ite(SB(e.e == k), t, r)
        return r
    if core.is_sym(e):
        raise HarnessError("ldexp with a non-integer symbolic exponent")
    e = builtins.int(e)
    if core._isinf(v):
        return v
    if isinstance(v, SI):
        v = SR(z3.ToReal(v.e))
    return v * (2.0 ** e)


def ldexp(v, e):
    if isinstance(e, ndarray) and e.dtype.kind != "i":
        raise TypeError("ufunc 'ldexp' not supported for the input types, and the inputs could not be safely coerced to any supported types according to the casting rule ''safe''")
    if isinstance(e, (builtins.float, SR)):
        raise TypeError("ufunc 'ldexp' not supported for the input types")
    return _map2(v, e, _ldexp1, float64)


def _frexp1(v):
    """(mantissa, exponent) with 2^(e-1) <= |v| < 2^e, e = 0 at 0 -- threshold table over the
    engine's exponent window (values outside the window are assumed away, and counted)."""
    if not core.is_sym(v):
        m, e = _math.frexp(v)
        return m, e
    if isinstance(v, SI):
        v = SR(z3.ToReal(v.e))
    E = core.ENG
    lo, hi = E.frexp_window
    if isinstance(v, SSqrt):
        # exponent of sqrt(R): 2^(k-1) <= sqrt(R) < 2^k  <=>  4^(k-1) <= R < 4^k ; the mantissa
        # is sqrt(R)*2^-k, never used by the code under test
        R = v.rad
        E.solver.add(z3.Or(R.e == 0, z3.And(R.e >= core._rv(4.0 ** (lo - 1)), R.e < core._rv(4.0 ** hi))))
        E._dirty = True
        E.stats.inc("frexp_window_assumptions")
        ee = z3.IntVal(0)
        for k in range(lo, hi + 1):
            ee = z3.If(z3.And(R.e >= core._rv(4.0 ** (k - 1)), R.e < core._rv(4.0 ** k)), z3.IntVal(k), ee)
        if getattr(E, "frexp_mode", "table") == "fork":
            return _Unusable("mantissa of a lazy sqrt"), _fork_int(ee, lo, hi)
        return _Unusable("mantissa of a lazy sqrt"), SI(ee)
    a = sabs(v)
    E.solver.add(z3.Or(v.e == 0, z3.And(a.e >= core._rv(2.0 ** (lo - 1)), a.e < core._rv(2.0 ** hi))))
    E._dirty = True
    E.stats.inc("frexp_window_assumptions")
    ee = z3.IntVal(0)
    mm = core._rv(0)
    for k in range(lo, hi + 1):
        c = z3.And(a.e >= core._rv(2.0 ** (k - 1)), a.e < core._rv(2.0 ** k))
        ee = z3.If(c, z3.IntVal(k), ee)
        mm = z3.If(c, v.e * core._rv(2.0 ** (-k)), mm)
    if getattr(E, "frexp_mode", "table") == "fork":
        k = _fork_int(ee, lo, hi)
        return v * (2.0 ** (-k)), k
    return SR(mm, v.bad), SI(ee)


def _fork_int(ee, lo, hi):
    """decide the value of the integer term ee in [lo, hi] by forking (fixed order, so that the
    re-execution of a decision prefix sees the same questions): the result is a Python int"""
    order = sorted(range(lo, hi + 1), key=lambda k: (abs(k), k))
    for k in order[:-1]:
        if bool(SB(ee == k)):
            return k
    core.ENG.assume(SB(ee == order[-1]))
    return order[-1]


def frexp(a):
    if isinstance(a, ndarray):
        a = _conc(a)
        ms, es = [], []
        for x in a.items:
            m, e = _frexp1(x)
            ms.append(m)
            es.append(e)
        return ndarray.of(ms, float64, a.shape), ndarray.of(es, int32, a.shape)
    m, e = _frexp1(a)
    return m, e


# ------------------------------------------------------------------ reductions / linear algebra
def dot(a, b):
    from . import ssp

    if isinstance(a, ssp.spmatrix) or isinstance(b, ssp.spmatrix):
        if isinstance(a, ssp.spmatrix):
            return a.dot(b)
        return b.T.dot(a)  # vector @ matrix
    if not isinstance(a, ndarray) or not isinstance(b, ndarray):
        return a * b
    a = _conc(a)
    b = _conc(b)
    if a.ndim == 1 and b.ndim == 1:
        ai, bi = a.items, b.items
        if len(ai) != len(bi):
            raise ValueError(f"shapes {a.shape} and {b.shape} not aligned")
        same = builtins.all(x is y for x, y in zip(ai, bi))
        r = 0.0
        for x, y in zip(ai, bi):
            r = r + x * y
        if same and isinstance(r, SR):
            r.sumsq = list(ai)
        return r
    if a.ndim == 2 and b.ndim == 1:
        return ndarray.of([dot(a[i], b) for i in range(a.shape[0])])
    if a.ndim == 1 and b.ndim == 2:
        return ndarray.of([dot(a, b[:, j]) for j in range(b.shape[1])])
    m, k = a.shape
    k2, n = b.shape
    assert k == k2
    return array([[dot(a[i], b[:, j]) for j in range(n)] for i in range(m)])


matmul = dot
inner = dot


def sum(a, axis=None):
    if isinstance(a, ndarray):
        return a.sum(axis)
    return _sum(list(a))


def prod(a):
    r = 1.0
    for x in _conc(a).items:
        r = r * x
    return r


def all(a, axis=None):
    if isinstance(a, ndarray):
        return a.all()
    return builtins.bool(a)


def any(a, axis=None):
    if isinstance(a, ndarray):
        return a.any()
    return builtins.bool(a)


def max(a, axis=None, initial=None):
    return a.max(initial=initial) if isinstance(a, ndarray) else a


def min(a, axis=None):
    return a.min() if isinstance(a, ndarray) else a


amax = max
amin = min


def diff(a, axis=-1):
    a = _conc(a)
    if a.ndim == 1:
        it = a.items
        return ndarray.of([it[i + 1] - it[i] for i in range(len(it) - 1)], a.dtype if a.dtype.kind != "b" else None)
    m, n = a.shape
    if axis in (1, -1):
        return array([[a[i, j + 1] - a[i, j] for j in range(n - 1)] for i in range(m)])
    return array([[a[i + 1, j] - a[i, j] for j in range(n)] for i in range(m - 1)])


def repeat(a, repeats, axis=None):
    a = _conc(a) if isinstance(a, (ndarray, list, tuple)) else array([a])
    its = list(a.items) if a.ndim <= 1 else [a[i, j] for i in range(a.shape[0]) for j in range(a.shape[1])]
    if isinstance(repeats, (ndarray, list, tuple)):
        reps = list(_conc(repeats).items) if isinstance(repeats, ndarray) else list(repeats)
    else:
        reps = [repeats] * len(its)
    if builtins.any(core.is_sym(r) for r in reps):
        raise HarnessError("repeat with symbolic counts")
    if len(reps) == 1 and len(its) != 1:
        reps = reps * len(its)
    if len(reps) != len(its):
        raise ValueError("operands could not be broadcast together")
    out = []
    for v, r in zip(its, reps):
        out.extend([v] * int(r))
    return ndarray.of(out, a.dtype)


def argsort(a, axis=-1, kind=None, stable=None):
    """numpy's default sort is an introsort that is stable only for <= 16 elements (insertion sort);
    longer arrays are outside what the model can promise"""
    it = list(_conc(a).items) if isinstance(a, ndarray) else list(a)
    if builtins.all(isinstance(x, (SB, builtins.bool)) for x in it):
        it = [builtins.bool(x) for x in it]  # a boolean key: decided element by element (forks)
    if builtins.any(core.is_sym(x) for x in it):
        raise HarnessError("argsort on symbolic data")
    order = sorted(range(len(it)), key=lambda i: it[i])
    if len(it) > 16 and not (stable or kind in ("stable", "mergesort")):
        # numpy's default sort is not stable beyond 16 elements: the relative order of equal keys is
        # unspecified.  Two of the admissible orders are explored (the stable one and ties reversed);
        # a counterexample is replayed on the real numpy, which decides.
        if builtins.bool(core.ENG.fresh_bool("argsort_ties_reversed")):
            order = sorted(range(len(it)), key=lambda i: (it[i], -i))
    return ndarray.of(order, int64)


def searchsorted(a, v, side="left"):
    it = _conc(a).items
    if builtins.any(core.is_sym(x) for x in it) or core.is_sym(v):
        raise HarnessError("searchsorted on symbolic data")
    k = 0
    if side == "left":
        while k < len(it) and it[k] < v:
            k += 1
    else:
        while k < len(it) and it[k] <= v:
            k += 1
    return k


class _linalg(types.ModuleType):
    @staticmethod
    def norm(a, ord=None, axis=None):
        a = _conc(a) if isinstance(a, ndarray) else atleast_1d(a)
        if axis is not None:
            assert a.ndim == 2
            m, n = a.shape
            if axis == 0:
                return ndarray.of([_linalg.norm(a[:, j], ord) for j in range(n)])
            return ndarray.of([_linalg.norm(a[i], ord) for i in range(m)])
        it = a.items
        if ord is not None and ord == inf:
            r = 0.0
            for x in it:
                r = smax(r, sabs(x))
            return r
        if ord == 1:
            return _sum([sabs(x) for x in it])
        assert ord is None or ord == 2, f"norm ord {ord}"
        flat = ndarray.of(it)
        return _sqrt1(dot(flat, flat)) if it else 0.0

    @staticmethod
    def cond(m):
        raise HarnessError("np.linalg.cond is not modelled")

    @staticmethod
    def solve(a, b):
        raise HarnessError("np.linalg.solve is not modelled")


linalg = _linalg("numpy.linalg")


class _Rng:
    """np.random.default_rng(seed): a deterministic stream of symbolic 'random' reals named
    after the seed and the draw index, i.e. the same seed gives the same stream"""

    def __init__(self, seed=None):
        self.seed = seed
        self.k = 0

    def normal(self, loc=0.0, scale=1.0, size=None):
        E = core.ENG
        n = 1 if size is None else builtins.int(size)
        out = []
        for _ in range(n):
            v = E.uf("rng_normal", builtins.float(self.seed if self.seed is not None else -1), builtins.float(self.k))
            if getattr(E, "rng_nonzero", False):
                E.assume(v != 0)  # a normal variate is non-zero (probability-one event; stated by the harness that sets it)
            out.append(v)
            self.k += 1
        return out[0] if size is None else ndarray.of(out)

    random = normal
    standard_normal = normal


class _random(types.ModuleType):
    default_rng = staticmethod(lambda seed=None: _Rng(seed))


random = _random("numpy.random")


def errstate(**kw):
    import contextlib

    return contextlib.nullcontext()


def seterr(**kw):
    return {}


integer = (builtins.int, SI)
floating = (builtins.float, SR)
number = (builtins.int, builtins.float, SR, SI)
generic = number


def isscalar(v):
    return isinstance(v, (builtins.int, builtins.float, SR, SI, SB))


def result_type(*a):
    return float64


def issubdtype(a, b):
    a = _dt(a)
    if b in (integer, int64):
        return a.kind == "i"
    if b in (floating, float64):
        return a.kind == "f"
    return False


def count_nonzero(a):
    return _sum([x != 0 if not isinstance(x, (SB, builtins.bool)) else x for x in _conc(a).items])


def module():
    """the object bound to sys.modules['numpy']"""
    m = types.ModuleType("numpy")
    g = globals()
    for k, v in g.items():
        if k.startswith("_") or k in ("builtins", "sys", "types", "core", "z3"):
            continue
        setattr(m, k, v)
    m.bool = bool_
    m.float_ = float64
    m.double = float64
    m.intp = int64
    m.__version__ = "symx"
    m.linalg = linalg
    m.random = random
    return m
