"""symx.core -- path-forking symbolic executor over z3, and the symbolic scalar types.

The real pygradflow source is executed with numpy/scipy bound to the model library in
symx.snp / symx.ssp.  Every Python-level truth test of a symbolic boolean comes here
(Engine.branch): the solver says which sides are feasible under the path condition, one is
followed and the other queued as a decision prefix for depth-first re-execution.

Two modes share the same harness code:
  * 'sym'      scalars are z3 terms, obligations are solver queries;
  * 'concrete' (replay) scalars are Python floats taken from a recorded solver model, the
               code under test runs on the REAL numpy/scipy, obligations are evaluated.
"""
import builtins
import fractions
import math
import time

try:
    import z3
except Exception:  # concrete replays never need z3
    z3 = None

INF = float("inf")


class Abort(BaseException):
    """path abandoned (bound reached / infeasible / unknown) -- BaseException on purpose so
    that `except Exception` blocks of the code under test cannot swallow it"""


class HarnessError(BaseException):
    """the machinery itself hit something it does not model: the run is inconclusive"""


ENG = None  # the active engine


def set_engine(e):
    global ENG
    ENG = e


# ---------------------------------------------------------------------------- scalars
def _is_num(v):
    return isinstance(v, (int, float)) and not isinstance(v, bool)


def _isinf(v):
    return isinstance(v, float) and (v == INF or v == -INF)


def _rv(v):
    """python number -> z3 real numeral (exact)"""
    if isinstance(v, bool):
        v = int(v)
    if isinstance(v, int):
        return z3.RealVal(v)
    fr = fractions.Fraction(v)
    return z3.RealVal(f"{fr.numerator}/{fr.denominator}")


def _bor(a, b):
    if a is None:
        return b
    if b is None:
        return a
    return z3.Or(a, b)


_OPS = {
    "le": lambda x, y: x <= y,
    "lt": lambda x, y: x < y,
    "ge": lambda x, y: x >= y,
    "gt": lambda x, y: x > y,
    "eq": lambda x, y: x == y,
    "ne": lambda x, y: x != y,
}
_SWAP = {"le": "ge", "lt": "gt", "ge": "le", "gt": "lt", "eq": "eq", "ne": "ne"}


class SB:
    """symbolic boolean"""

    __slots__ = ("e",)

    def __init__(self, e):
        self.e = e

    def __bool__(self):
        return ENG.branch(self.e)

    def __and__(a, b):
        return land(a, b)

    __rand__ = __and__

    def __or__(a, b):
        return lor(a, b)

    __ror__ = __or__

    def __invert__(a):
        return lnot(a)

    def __eq__(a, b):
        return SB(a.e == _be(b))

    def __ne__(a, b):
        return SB(a.e != _be(b))

    __hash__ = None

    def __repr__(self):
        return "<SB>"

    def __format__(self, spec):
        return "<SB>"


def _be(b):
    if isinstance(b, SB):
        return b.e
    return z3.BoolVal(builtins.bool(b))


def land(*xs):
    if builtins.any(isinstance(x, SB) for x in xs):
        return SB(z3.And(*[_be(x) for x in xs]))
    r = True
    for x in xs:
        r = r and builtins.bool(x)
    return r


def lor(*xs):
    if builtins.any(isinstance(x, SB) for x in xs):
        return SB(z3.Or(*[_be(x) for x in xs]))
    r = False
    for x in xs:
        r = r or builtins.bool(x)
    return r


def lnot(x):
    if isinstance(x, SB):
        return SB(z3.Not(x.e))
    return not x


def implies(a, b):
    return lor(lnot(a), b)


def iff(a, b):
    if isinstance(a, SB) or isinstance(b, SB):
        return SB(_be(a) == _be(b))
    return builtins.bool(a) == builtins.bool(b)


class SR:
    """symbolic real.  `bad` is an optional z3 Bool: 'this value is not finite' (fault flag,
    propagated through arithmetic so that isfinite() on derived values sees it).
    `recip` optionally names the paired reciprocal (1/lambda <-> dt) so that the loop
    harnesses stay linear."""

    __slots__ = ("e", "bad", "recip", "sumsq")

    def __init__(self, e, bad=None):
        self.e = e if not _is_num(e) else _rv(e)
        self.bad = bad
        self.recip = None
        self.sumsq = None

    # -- helpers
    @staticmethod
    def _o(b):
        if isinstance(b, SR):
            return b.e, b.bad
        if isinstance(b, SI):
            return z3.ToReal(b.e), None
        if isinstance(b, SB):
            return z3.If(b.e, _rv(1), _rv(0)), None
        return _rv(b), None

    @staticmethod
    def _ok(b):
        return isinstance(b, (SR, SI, SB, int, float))

    def _signinf(a, inf):
        # finite symbolic times +-inf: decided by the sign of a (NaN at 0 is an error)
        if a > 0:
            return inf
        if a < 0:
            return -inf
        raise HarnessError("0 * inf in the code under test")

    def __add__(a, b):
        if not SR._ok(b):
            return NotImplemented
        if _isinf(b):
            return b
        e, bad = SR._o(b)
        r = SR(a.e + e, _bor(a.bad, bad))
        if a.sumsq is not None and isinstance(b, SR) and b.sumsq is not None:
            r.sumsq = a.sumsq + b.sumsq
        elif a.sumsq is not None and _is_num(b) and b == 0:
            r.sumsq = a.sumsq
        return r

    __radd__ = __add__

    def __sub__(a, b):
        if not SR._ok(b):
            return NotImplemented
        if _isinf(b):
            return -b
        e, bad = SR._o(b)
        return SR(a.e - e, _bor(a.bad, bad))

    def __rsub__(a, b):
        if not SR._ok(b):
            return NotImplemented
        if _isinf(b):
            return b
        e, bad = SR._o(b)
        return SR(e - a.e, _bor(a.bad, bad))

    def __mul__(a, b):
        if not SR._ok(b):
            return NotImplemented
        if _isinf(b):
            return a._signinf(b)
        if _is_num(b) and b == 0 and a.bad is None:
            return 0.0
        if isinstance(b, SR) and b.recip is a or (a.recip is not None and a.recip is b):
            return 1.0
        e, bad = SR._o(b)
        if isinstance(b, SR) and getattr(ENG, "mulmode", "z3") == "uf" and not z3.is_rational_value(a.e) and not z3.is_rational_value(b.e):
            return SR(ENG.mul_uf(a.e, e), _bor(a.bad, bad))
        return SR(a.e * e, _bor(a.bad, bad))

    __rmul__ = __mul__

    def __truediv__(a, b):
        if not SR._ok(b):
            return NotImplemented
        if _isinf(b):
            return 0.0
        if isinstance(b, SR) and b.recip is not None:
            return a * b.recip
        if _is_num(b):
            return SR(a.e * _rv(1.0 / b) if _exact_recip(b) else a.e / _rv(b), a.bad)
        e, bad = SR._o(b)
        return ENG.divide(a, b)

    def __rtruediv__(a, b):
        if not SR._ok(b):
            return NotImplemented
        if a.recip is not None:
            if _is_num(b) and b == 1:
                return a.recip
            return b * a.recip
        return ENG.divide(b, a)

    def __pow__(a, p):
        if p == 2:
            return a * a
        if p == 0.5:
            from . import snp

            return snp.sqrt(a)
        raise HarnessError(f"SR ** {p}")

    def __neg__(a):
        return SR(-a.e, a.bad)

    def __pos__(a):
        return a

    def __abs__(a):
        return SR(z3.If(a.e >= 0, a.e, -a.e), a.bad)

    def _cmp(a, b, op):
        if isinstance(b, SQ) and not isinstance(a, SQ):
            return b._cmp(a, _SWAP[op])
        f = _OPS[op]
        if isinstance(b, SR):
            return SB(f(a.e, b.e))
        if _isinf(b):
            return None
        if isinstance(b, (SI, SB)):
            return SB(f(a.e, SR._o(b)[0]))
        if _is_num(b):
            return SB(f(a.e, _rv(b)))
        return NotImplemented

    def __le__(a, b):
        if _isinf(b):
            return b > 0
        return a._cmp(b, "le")

    def __lt__(a, b):
        if _isinf(b):
            return b > 0
        return a._cmp(b, "lt")

    def __ge__(a, b):
        if _isinf(b):
            return b < 0
        return a._cmp(b, "ge")

    def __gt__(a, b):
        if _isinf(b):
            return b < 0
        return a._cmp(b, "gt")

    def __eq__(a, b):
        if _isinf(b):
            return False
        if b is None:
            return False
        return a._cmp(b, "eq")

    def __ne__(a, b):
        if _isinf(b):
            return True
        if b is None:
            return True
        return a._cmp(b, "ne")

    __hash__ = None

    def __float__(self):
        raise HarnessError("float() of a symbolic real: a builtin was not shadowed")

    def __int__(self):
        raise HarnessError("int() of a symbolic real")

    def __index__(self):
        raise HarnessError("index() of a symbolic real")

    def __round__(self, n=None):
        raise HarnessError("round() of a symbolic real")

    def __repr__(self):
        return "<SR>"

    def __format__(self, spec):
        return "<SR>"

    def item(self):
        return self

    @property
    def dtype(self):
        from . import snp

        return snp.float64

    @property
    def shape(self):
        return ()

    ndim = 0

    def astype(self, dt, copy=True):
        return self

    def dot(self, o):
        return self * o

    def sum(self):
        return self

    def copy(self):
        return self


class SQ(SR):
    """lazy quotient num/den of symbolic reals: comparisons are rewritten into products with the
    denominator (linear when the other side is a constant), so that ratio tests such as
    `theta <= theta_max` or `dist_factor >= 1` do not put a division into the solver."""

    __slots__ = ("num", "den", "_e")

    def __init__(self, num, den, bad=None):
        self.num = num if isinstance(num, SR) else SR(num)
        self.den = den if isinstance(den, SR) else SR(den)
        self.bad = bad
        self.recip = None
        self.sumsq = None
        self._e = None

    @property
    def e(self):
        if self._e is None:
            if getattr(ENG, "mulmode", "z3") == "uf":
                self._e = ENG.div_uf(self.num.e, self.den.e)
            else:
                self._e = self.num.e / self.den.e
        return self._e

    def _cmp(a, b, op):
        f = _OPS[op]
        if _isinf(b):
            return None
        if isinstance(b, SQ):
            l = a.num * b.den
            r = b.num * a.den
            pos = (a.den * b.den) > 0
            return a._link(SB(z3.If(_be(pos), f(zexpr(l), zexpr(r)), f(zexpr(r), zexpr(l)))), f, b.e)
        if isinstance(b, (SR, SI, SB)) or _is_num(b):
            if _is_num(b) and b == 0:
                rhs = _rv(0)
            elif _is_num(b) and b == 1:
                rhs = a.den.e
            else:
                rhs = zexpr(b * a.den)
            # numpy semantics for a zero denominator: num/0 = +-inf (num != 0) or nan (num == 0)
            pinf = z3.BoolVal(op in ("ge", "gt", "ne"))
            ninf = z3.BoolVal(op in ("le", "lt", "ne"))
            nanv = z3.BoolVal(op == "ne")
            zero = z3.If(a.num.e > 0, pinf, z3.If(a.num.e < 0, ninf, nanv))
            return a._link(SB(z3.If(a.den.e > 0, f(a.num.e, rhs), z3.If(a.den.e < 0, f(rhs, a.num.e), zero))), f, zexpr(b))
        return NotImplemented

    def _link(a, cond, f, other):
        """with uninterpreted division the quotient term must agree with every comparison that
        was decided by cross-multiplication (lazy instantiation of its defining property)"""
        if getattr(ENG, "mulmode", "z3") == "uf" and ENG.mode == "sym":
            ENG.solver.add(z3.Implies(a.den.e != 0, f(a.e, other) == cond.e))
        return cond

    def __neg__(a):
        return SQ(-a.num, a.den, a.bad)

    def __abs__(a):
        return SQ(abs(a.num), abs(a.den), a.bad)


def _exact_recip(b):
    if b == 0:
        raise ZeroDivisionError("float division by zero")
    m, _ = math.frexp(b)
    return abs(m) == 0.5


class SI:
    """symbolic integer (scaling weights, limits)"""

    __slots__ = ("e",)

    def __init__(self, e):
        self.e = e if not isinstance(e, int) else z3.IntVal(e)

    @staticmethod
    def _o(b):
        if isinstance(b, SI):
            return b.e
        if isinstance(b, bool):
            return z3.IntVal(int(b))
        if isinstance(b, int):
            return z3.IntVal(b)
        return None

    def __add__(a, b):
        o = SI._o(b)
        if o is None:
            if isinstance(b, (SR, float)):
                return SR(z3.ToReal(a.e)) + b
            return NotImplemented
        return SI(a.e + o)

    __radd__ = __add__

    def __sub__(a, b):
        o = SI._o(b)
        if o is None:
            if isinstance(b, (SR, float)):
                return SR(z3.ToReal(a.e)) - b
            return NotImplemented
        return SI(a.e - o)

    def __rsub__(a, b):
        o = SI._o(b)
        if o is None:
            if isinstance(b, (SR, float)):
                return b - SR(z3.ToReal(a.e))
            return NotImplemented
        return SI(o - a.e)

    def __mul__(a, b):
        o = SI._o(b)
        if o is None:
            if isinstance(b, (SR, float)):
                return SR(z3.ToReal(a.e)) * b
            return NotImplemented
        return SI(a.e * o)

    __rmul__ = __mul__

    def __neg__(a):
        return SI(-a.e)

    def __pos__(a):
        return a

    def __abs__(a):
        return SI(z3.If(a.e >= 0, a.e, -a.e))

    def _cmp(a, b, op):
        o = SI._o(b)
        if o is not None:
            return SB(op(a.e, o))
        if _isinf(b):
            return None
        if isinstance(b, SR):
            return SB(op(z3.ToReal(a.e), b.e))
        if isinstance(b, float):
            return SB(op(z3.ToReal(a.e), _rv(b)))
        return NotImplemented

    def __le__(a, b):
        if _isinf(b):
            return b > 0
        return a._cmp(b, lambda x, y: x <= y)

    def __lt__(a, b):
        if _isinf(b):
            return b > 0
        return a._cmp(b, lambda x, y: x < y)

    def __ge__(a, b):
        if _isinf(b):
            return b < 0
        return a._cmp(b, lambda x, y: x >= y)

    def __gt__(a, b):
        if _isinf(b):
            return b < 0
        return a._cmp(b, lambda x, y: x > y)

    def __eq__(a, b):
        if b is None or _isinf(b):
            return False
        return a._cmp(b, lambda x, y: x == y)

    def __ne__(a, b):
        if b is None or _isinf(b):
            return True
        return a._cmp(b, lambda x, y: x != y)

    __hash__ = None

    def __index__(self):
        # used as a slice bound / position: decided by forking over small values (fixed order)
        for k in list(range(0, 33)) + list(range(-1, -9, -1)):
            if builtins.bool(SB(self.e == k)):
                return k
        raise HarnessError("index() of a symbolic int outside [-8, 32]")

    def __int__(self):
        raise HarnessError("int() of a symbolic int")

    def __float__(self):
        raise HarnessError("float() of a symbolic int")

    def __repr__(self):
        return "<SI>"

    def __format__(self, spec):
        return "<SI>"


class SF:
    """IEEE-754 scalar (z3 floating-point term, binary64 or binary32, round-to-nearest-even):
    used by the bit-exact kernels (clipping, casts).  Mixed-width operations promote to
    binary64 exactly, as numpy does."""

    __slots__ = ("e",)

    def __init__(self, e):
        self.e = e

    @property
    def bits(self):
        return self.e.sort().ebits() + self.e.sort().sbits()

    def to(self, bits):
        if self.bits == bits:
            return self
        return SF(z3.fpToFP(z3.RNE(), self.e, z3.Float32() if bits == 32 else z3.Float64()))

    @staticmethod
    def _pair(a, b):
        if isinstance(b, SF):
            w = max(a.bits, b.bits)
            return a.to(w).e, b.to(w).e
        if isinstance(b, bool) or not isinstance(b, (int, float)):
            return None
        return a.e, z3.FPVal(float(b), a.e.sort())

    def _bin(a, b, f, rev=False):
        p = SF._pair(a, b)
        if p is None:
            return NotImplemented
        x, y = (p[1], p[0]) if rev else p
        return SF(f(z3.RNE(), x, y))

    def __add__(a, b):
        return a._bin(b, z3.fpAdd)

    def __radd__(a, b):
        return a._bin(b, z3.fpAdd, True)

    def __sub__(a, b):
        return a._bin(b, z3.fpSub)

    def __rsub__(a, b):
        return a._bin(b, z3.fpSub, True)

    def __mul__(a, b):
        return a._bin(b, z3.fpMul)

    def __rmul__(a, b):
        return a._bin(b, z3.fpMul, True)

    def __truediv__(a, b):
        return a._bin(b, z3.fpDiv)

    def __neg__(a):
        return SF(z3.fpNeg(a.e))

    def __abs__(a):
        return SF(z3.fpAbs(a.e))

    def _cmp(a, b, f):
        p = SF._pair(a, b)
        if p is None:
            return NotImplemented
        return SB(f(p[0], p[1]))

    def __lt__(a, b):
        return a._cmp(b, z3.fpLT)

    def __le__(a, b):
        return a._cmp(b, z3.fpLEQ)

    def __gt__(a, b):
        return a._cmp(b, z3.fpGT)

    def __ge__(a, b):
        return a._cmp(b, z3.fpGEQ)

    def __eq__(a, b):
        return a._cmp(b, z3.fpEQ)

    def __ne__(a, b):
        return a._cmp(b, lambda x, y: z3.Not(z3.fpEQ(x, y)))

    __hash__ = None

    def isnan(self):
        return SB(z3.fpIsNaN(self.e))

    def isinf(self):
        return SB(z3.fpIsInf(self.e))

    def __float__(self):
        raise HarnessError("float() of a symbolic IEEE value")

    def __repr__(self):
        return "<SF>"

    def __format__(self, spec):
        return "<SF>"


def ite(c, a, b):
    """value-level if-then-else that never forks"""
    if not isinstance(c, SB):
        return a if c else b
    if a is b:
        return a
    if isinstance(a, SF) or isinstance(b, SF):
        if not isinstance(a, SF):
            a = SF(z3.FPVal(float(a), b.e.sort()))
        if not isinstance(b, SF):
            b = SF(z3.FPVal(float(b), a.e.sort()))
        w = max(a.bits, b.bits)
        return SF(z3.If(c.e, a.to(w).e, b.to(w).e))
    if isinstance(a, (SB, bool)) and isinstance(b, (SB, bool)):
        return SB(z3.If(c.e, _be(a), _be(b)))
    if isinstance(a, (SI, int)) and isinstance(b, (SI, int)) and not isinstance(a, bool) and not isinstance(b, bool):
        return SI(z3.If(c.e, SI._o(a), SI._o(b)))
    if _isinf(a) or _isinf(b):
        # an extended-real result cannot be merged: decide the condition
        return a if builtins.bool(c) else b
    ea, ba = SR._o(a)
    eb, bb = SR._o(b)
    bad = None
    if ba is not None or bb is not None:
        bad = z3.If(c.e, ba if ba is not None else z3.BoolVal(False), bb if bb is not None else z3.BoolVal(False))
    return SR(z3.If(c.e, ea, eb), bad)


def smax(a, b):
    if _isinf(a) or _isinf(b):
        if a == INF or b == INF:
            return INF
        return b if a == -INF else a
    return ite(a >= b, a, b)


def smin(a, b):
    if _isinf(a) or _isinf(b):
        if a == -INF or b == -INF:
            return -INF
        return b if a == INF else a
    return ite(a <= b, a, b)


def sabs(a):
    if isinstance(a, (SR, SI)):
        return abs(a)
    return builtins.abs(a)


def is_sym(v):
    return isinstance(v, (SR, SI, SB, SF))


def zexpr(v):
    """any scalar -> z3 real term"""
    if isinstance(v, SR):
        return v.e
    if isinstance(v, SI):
        return z3.ToReal(v.e)
    if isinstance(v, SB):
        return z3.If(v.e, _rv(1), _rv(0))
    return _rv(v)


# ---------------------------------------------------------------------------- engine
class Stats(dict):
    def inc(self, k, v=1):
        self[k] = self.get(k, 0) + v


def _num_to_float(v):
    """z3 numeral (rational or algebraic) -> (float, exact-string)"""
    if z3.is_rational_value(v):
        fr = fractions.Fraction(v.numerator_as_long(), v.denominator_as_long())
        return float(fr), f"{fr.numerator}/{fr.denominator}"
    if z3.is_algebraic_value(v):
        a = v.approx(30)
        fr = fractions.Fraction(a.numerator_as_long(), a.denominator_as_long())
        return float(fr), "~" + str(float(fr))
    if z3.is_int_value(v):
        return int(v.as_long()), str(v.as_long())
    if z3.is_fp_value(v):
        if v.isNaN():
            return float("nan"), "nan"
        if v.isInf():
            return (float("-inf") if v.isNegative() else float("inf")), "inf"
        r = z3.simplify(z3.fpToReal(v))
        fr = fractions.Fraction(r.numerator_as_long(), r.denominator_as_long())
        f = float(fr)
        if f == 0.0 and v.isNegative():
            f = -0.0
        return f, f.hex()
    if z3.is_true(v):
        return True, "true"
    if z3.is_false(v):
        return False, "false"
    raise HarnessError(f"unexpected model value {v}")


class Engine:
    mode = "sym"

    def __init__(self, timeout_ms=10000, nra=False, max_paths=200000, max_time=None, seed=0):
        self.solver = z3.Solver()
        self.solver.set("timeout", timeout_ms)
        if seed:
            self.solver.set("random_seed", seed % 1000)
        self.timeout_ms = timeout_ms
        self.nra = nra  # discharge obligations in a fresh non-incremental solver
        self.nra_timeout_ms = 120000
        self.max_paths = max_paths
        self.max_time = max_time
        self.stats = Stats(paths=0, queries=0, solver_s=0.0, forks=0, aborted=0, vacuous=0)
        self.obl = {}  # oid -> dict(checked, proved, cex=[...], unknown)
        self.unknown = []
        self.notes = []
        self.samples = []
        self.errors = []
        self.divmode = "lazy"  # how symbolic/symbolic division is encoded: lazy | z3 | uf
        self._div_uf = None
        self._mul_uf = None
        self.mulmode = "z3"  # 'uf': symbolic*symbolic products are uninterpreted (LRA+UF)
        self.path_hooks = []
        self.witnesses = []
        self.witness_limit = 2
        self._refine_unknown = {}
        self.cross_check = 0  # number of discharged obligations per task re-decided by cvc5

    # -- per-path state
    def _reset_path(self):
        self.trace = []
        self.inputs = {}  # name -> z3 const (registered, reported in counterexamples)
        self.uflog = []  # (fname, [arg exprs], result expr)
        self._fresh = {}
        self._dirty = True
        self._mul_seen = set()
        self._path_failed = False
        self.tags = {}

    def fresh_name(self, prefix):
        k = self._fresh.get(prefix, 0)
        self._fresh[prefix] = k + 1
        return f"{prefix}!{k}"

    # -- inputs
    def real(self, name, lo=None, hi=None, lo_strict=False, hi_strict=False):
        v = z3.Real(name)
        self.inputs[name] = v
        if lo is not None:
            self.solver.add(v > zexpr(lo) if lo_strict else v >= zexpr(lo))
        if hi is not None:
            self.solver.add(v < zexpr(hi) if hi_strict else v <= zexpr(hi))
        self._dirty = True
        return SR(v)

    def int(self, name, lo=None, hi=None):
        v = z3.Int(name)
        self.inputs[name] = v
        if lo is not None:
            self.solver.add(v >= lo)
        if hi is not None:
            self.solver.add(v <= hi)
        self._dirty = True
        return SI(v)

    def bool(self, name):
        v = z3.Bool(name)
        self.inputs[name] = v
        return SB(v)

    def fp(self, name, bits=64):
        v = z3.FP(name, z3.Float64() if bits == 64 else z3.Float32())
        self.inputs[name] = v
        return SF(v)

    def fresh_real(self, prefix, register=True):
        n = self.fresh_name(prefix)
        v = z3.Real(n)
        if register:
            self.inputs[n] = v
        return SR(v)

    def fresh_bool(self, prefix):
        n = self.fresh_name(prefix)
        v = z3.Bool(n)
        self.inputs[n] = v
        return SB(v)

    _ufs = {}

    def uf(self, name, *args):
        """uninterpreted real function of real arguments (the user's callbacks)"""
        key = (name, len(args))
        f = Engine._ufs.get(key)
        if f is None:
            f = z3.Function(name, *([z3.RealSort()] * (len(args) + 1)))
            Engine._ufs[key] = f
        ea = [zexpr(a) for a in args]
        r = f(*ea)
        self.uflog.append((name, ea, r))
        return SR(r)

    _ufbs = {}

    def ufb(self, name, *args):
        """uninterpreted boolean function of real arguments (e.g. 'the callback fails at this point')"""
        key = (name, len(args))
        f = Engine._ufbs.get(key)
        if f is None:
            f = z3.Function(name, *([z3.RealSort()] * len(args) + [z3.BoolSort()]))
            Engine._ufbs[key] = f
        ea = [zexpr(a) for a in args]
        r = f(*ea)
        self.uflog.append((name, ea, r))
        return SB(r)

    # -- division policy
    def divide(self, a, b):
        """a / b with symbolic b.  'z3': real division (NRA); 'uf': uninterpreted DIV with
        sign axioms (keeps LRA+UF)."""
        if self.divmode == "z3":
            ea, ba = SR._o(a)
            eb, bb = SR._o(b)
            return SR(ea / eb, _bor(ba, bb))
        if self.divmode == "lazy":
            ea, ba = SR._o(a)
            eb, bb = SR._o(b)
            return SQ(a if isinstance(a, SR) else SR(ea), b if isinstance(b, SR) else SR(eb), _bor(ba, bb))
        ea, ba = SR._o(a)
        eb, bb = SR._o(b)
        if self._div_uf is None:
            self._div_uf = z3.Function("DIV", z3.RealSort(), z3.RealSort(), z3.RealSort())
        q = self._div_uf(ea, eb)
        self.uflog.append(("DIV", [ea, eb], q))
        self.solver.add(
            z3.Implies(z3.And(ea > 0, eb > 0), q > 0),
            z3.Implies(z3.And(ea < 0, eb > 0), q < 0),
            z3.Implies(z3.And(ea > 0, eb < 0), q < 0),
            z3.Implies(z3.And(ea < 0, eb < 0), q > 0),
            z3.Implies(ea == 0, q == 0),
            z3.Implies(ea == eb, q == 1),
        )
        return SR(q, _bor(ba, bb))

    def mul_uf(self, x, y):
        """x*y as an uninterpreted function with the sign/zero/square facts (keeps LRA+UF)"""
        if x.get_id() > y.get_id():
            x, y = y, x
        if self._mul_uf is None:
            self._mul_uf = z3.Function("MUL", z3.RealSort(), z3.RealSort(), z3.RealSort())
        q = self._mul_uf(x, y)
        k = q.get_id()
        if k not in self._mul_seen:
            self._mul_seen.add(k)
            self.uflog.append(("MUL", [x, y], q))
            if x.eq(y):
                self.solver.add(q >= 0, (q == 0) == (x == 0))
            else:
                self.solver.add(
                    (q == 0) == z3.Or(x == 0, y == 0),
                    (q > 0) == z3.Or(z3.And(x > 0, y > 0), z3.And(x < 0, y < 0)),
                )
        return q

    def div_uf(self, x, y):
        if self._div_uf is None:
            self._div_uf = z3.Function("DIV", z3.RealSort(), z3.RealSort(), z3.RealSort())
        q = self._div_uf(x, y)
        k = q.get_id()
        if k not in self._mul_seen:
            self._mul_seen.add(k)
            self.uflog.append(("DIV", [x, y], q))
            self.solver.add(
                z3.Implies(y != 0, (q == 0) == (x == 0)),
                z3.Implies(y != 0, (q > 0) == z3.Or(z3.And(x > 0, y > 0), z3.And(x < 0, y < 0))),
                z3.Implies(z3.And(x == y, y != 0), q == 1),
            )
        return q

    # -- solver access
    def check(self, *extra):
        t = time.time()
        self.stats.inc("queries")
        if self.nra:
            # z3's incremental mode uses a weaker nonlinear strategy (unknown where a fresh
            # solver answers in milliseconds): NRA harnesses re-assert into a fresh solver
            f = z3.Solver()
            f.set("timeout", self.nra_timeout_ms)
            f.add(*self.solver.assertions())
            f.add(*extra)
            r = f.check()
            self._last_model_solver = f
        else:
            r = self.solver.check(*extra)
            self._last_model_solver = self.solver
        self.stats.inc("solver_s", time.time() - t)
        return r

    def model(self):
        return self._last_model_solver.model()

    def assume(self, cond):
        if isinstance(cond, SB):
            self.solver.add(cond.e)
            self._dirty = True
        elif isinstance(cond, z3.ExprRef):
            self.solver.add(cond)
            self._dirty = True
        elif not cond:
            raise Abort()

    def branch(self, cond):
        cond = z3.simplify(cond)
        if z3.is_true(cond):
            return True
        if z3.is_false(cond):
            return False
        i = len(self.trace)
        if i < len(self.prefix):
            d = self.prefix[i]
        else:
            rt = self.check(cond)
            rf = self.check(z3.Not(cond))
            if rt == z3.unknown or rf == z3.unknown:
                self.unknown.append(("branch", str(cond)[:300]))
                self.stats.inc("unknown")
                raise Abort()
            can_t = rt == z3.sat
            can_f = rf == z3.sat
            if can_t and can_f:
                d = True
                self.todo.append(self.trace + [False])
                self.stats.inc("forks")
            elif can_t:
                d = True
            elif can_f:
                d = False
            else:
                # the path condition itself is unsatisfiable (an assume() made it so)
                self.stats.inc("infeasible")
                raise Abort()
            self._dirty = False
        self.trace.append(d)
        self.solver.add(cond if d else z3.Not(cond))
        return d

    def feasible(self):
        if not self._dirty:
            return True
        r = self.check()
        if r == z3.unknown:
            self.unknown.append(("feasible", ""))
            self.stats.inc("unknown")
            raise Abort()
        self._dirty = False
        return r == z3.sat

    # -- obligations
    def _ob(self, oid):
        o = self.obl.get(oid)
        if o is None:
            o = self.obl[oid] = dict(checked=0, proved=0, failed=0, unknown=0, cex=[])
        return o

    def prove(self, cond, oid, info=None):
        """obligation: under the current path condition `cond` holds.  Never raises on
        failure; records a counterexample (model of inputs + UF applications)."""
        only = getattr(self, "only", None)
        if only and not any(oid.startswith(p) for p in only):
            return True  # stated by the shared harness for another property: decided in that property's run
        o = self._ob(oid)
        if not self.feasible():
            self.stats.inc("vacuous")
            return True
        o["checked"] += 1
        if not isinstance(cond, (SB, z3.ExprRef)):
            if cond:
                o["proved"] += 1
                return True
            # concretely false on a feasible path: any model of the path is a counterexample
            neg = z3.BoolVal(True)
        else:
            ce = cond.e if isinstance(cond, SB) else cond
            ce = z3.simplify(ce)
            if z3.is_true(ce):
                o["proved"] += 1
                return True
            neg = z3.Not(ce)
        if len(self.samples) < 12 and (not self.samples or self.samples[-1].get("obligation") != oid):
            self.samples.append(dict(obligation=oid, shape=self.tags.get("shape"), path=len(self.trace), formula=str(neg)[:400], info=info))
        r = self.check(neg)
        model = self.model() if r == z3.sat else None
        self._links = []
        refined = None
        if r == z3.sat and self.mulmode == "uf" and self._refine_unknown.get(oid, 0) < 3:
            before = self._refine_unknown.get(oid, 0)
            r, model = self._refine(neg, model, oid)
            refined = r == z3.sat and self._refine_unknown.get(oid, 0) == before  # a model of the real products
        if r == z3.sat and not self.nra:
            # prefer a counterexample on a dyadic grid (exactly representable in binary64, so that
            # boundary cases of tolerances survive the float replay)
            dm = self._dyadic_model(neg)
            if dm is not None:
                model = dm
            elif len(o["cex"]) < 4 and self.stats.get("robust_tries", 0) < 40:
                self.stats.inc("robust_tries")
                rm = self._robust_model(neg, model)
                if rm is not None:
                    model = rm
        if r == z3.unsat:
            o["proved"] += 1
            if self.cross_check and self.stats.get("cross_checked", 0) + self.stats.get("cross_inconclusive", 0) < self.cross_check and o["proved"] <= 2:
                self._cross_check(neg, oid)
            return True
        if r == z3.sat:
            o["failed"] += 1
            self._path_failed = True
            if len(o["cex"]) < 4 or (refined and sum(1 for c in o["cex"] if c.get("refined")) < 4):
                c = self._cex(model, oid, info, neg)
                c["refined"] = bool(refined)
                o["cex"].append(c)
            return False
        o["unknown"] += 1
        self.unknown.append(("prove", oid))
        self.stats.inc("unknown")
        return None

    def _cross_check(self, neg, oid):
        """second solver: the discharged query (path condition and negated obligation) is dumped as
        SMT-LIB2 and decided again by cvc5; `sat` there is a disagreement and makes the run
        inconclusive, `unknown`/timeout is only counted"""
        import subprocess
        import tempfile

        f = z3.Solver()
        f.add(*self.solver.assertions())
        f.add(neg)
        f.add(*getattr(self, "_links", []))  # the product definitions, if the proof needed them
        txt = "(set-logic ALL)\n" + f.to_smt2()
        with tempfile.NamedTemporaryFile("w", suffix=".smt2", delete=False, dir="/var/tmp") as fh:
            fh.write(txt)
            path = fh.name
        try:
            out = subprocess.run(["cvc5", "--lang", "smt2", "--tlimit=8000", path], capture_output=True, text=True, timeout=20).stdout.strip().splitlines()
            ans = out[0].strip() if out else "unknown"
        except Exception:
            ans = "unknown"
        finally:
            try:
                import os

                os.remove(path)
            except OSError:
                pass
        if ans == "unsat":
            self.stats.inc("cross_checked")
        elif ans == "sat":
            self.stats.inc("cross_disagree")
            self.errors.append(f"solver disagreement on {oid}: z3 unsat, cvc5 sat")
        else:
            self.stats.inc("cross_inconclusive")

    def _refine(self, neg, model, oid=None):
        """a counterexample found with uninterpreted products/quotients is re-derived with the
        logged MUL/DIV applications constrained to the true products (fresh solver, NRA):
        sat -> a model the real arithmetic can reproduce; unsat -> the counterexample was an
        artefact of the abstraction and the obligation holds; unknown -> keep the first model
        (the concrete replay decides)."""
        links = []
        for name, args, res in self.uflog:
            if name == "MUL":
                links.append(res == args[0] * args[1])
            elif name == "DIV":
                links.append(z3.Implies(args[1] != 0, res * args[1] == args[0]))
        if not links:
            return z3.sat, model
        t0 = time.time()
        f = z3.Solver()
        f.set("timeout", getattr(self, "refine_timeout_ms", 45000))
        f.add(*self.solver.assertions())
        f.add(neg)
        f.add(*links)
        r = f.check()
        self.stats.inc("queries")
        self.stats.inc("refinements")
        self.stats.inc("solver_s", time.time() - t0)
        if r == z3.sat:
            return z3.sat, f.model()
        if r == z3.unsat:
            self.stats.inc("refuted_by_refinement")
            self._links = links
            return z3.unsat, None
        # z3 gives up quickly on NRA mixed with uninterpreted functions: second attempt on the pure
        # polynomial formula (products substituted in, every other application Ackermannised)
        r2, m2 = self._refine_ackermann(neg)
        if r2 == z3.sat:
            return z3.sat, m2
        if r2 == z3.unsat:
            self.stats.inc("refuted_by_refinement")
            self._links = links
            return z3.unsat, None
        self._refine_unknown[oid] = self._refine_unknown.get(oid, 0) + 1
        return z3.sat, model

    def _refine_ackermann(self, neg):
        t0 = time.time()
        subs, side, groups = [], [], {}
        for k, (name, args, res) in enumerate(self.uflog):
            if name == "MUL":
                subs.append((res, args[0] * args[1]))
            else:
                v = z3.Real(f"ack!{k}")
                subs.append((res, v))
                if name == "DIV":
                    side.append(z3.Implies(args[1] != 0, v * args[1] == args[0]))
                groups.setdefault((name, len(args)), []).append((args, v))
        for lst in groups.values():
            for i in range(len(lst)):
                for j in range(i + 1, len(lst)):
                    (a1, v1), (a2, v2) = lst[i], lst[j]
                    side.append(z3.Implies(z3.And(*[x == y for x, y in zip(a1, a2)]) if a1 else z3.BoolVal(True), v1 == v2))
        # innermost applications last, so that outer terms are matched before their arguments change
        subs.sort(key=lambda p: -len(p[0].sexpr()))
        fs = [z3.substitute(a, *subs) for a in list(self.solver.assertions()) + [neg] + side]
        f = z3.Solver()
        f.set("timeout", getattr(self, "refine_timeout_ms", 45000))
        f.add(*fs)
        r = f.check()
        self.stats.inc("queries")
        self.stats.inc("ackermann_refinements")
        self.stats.inc("solver_s", time.time() - t0)
        if r != z3.sat:
            return r, None
        # rebuild a model over the original vocabulary: the inputs keep their values, each logged
        # application gets the value of its stand-in
        m = f.model()
        g = z3.Solver()
        g.set("timeout", 20000)
        g.add(*self.solver.assertions())
        g.add(neg)
        for n, v in self.inputs.items():
            g.add(v == m.eval(v, model_completion=True))
        for k, (name, args, res) in enumerate(self.uflog):
            if name != "MUL":
                g.add(res == m.eval(z3.Real(f"ack!{k}"), model_completion=True))
            else:
                g.add(res == args[0] * args[1])
        if g.check() == z3.sat:
            return z3.sat, g.model()
        return z3.unknown, None

    def more_models(self, oid_neg, k=3):
        return []

    def _cex(self, model, oid, info, neg=None):
        vals = {}
        exact = {}
        for n, v in self.inputs.items():
            mv = model.eval(v, model_completion=True)
            f, s = _num_to_float(mv)
            vals[n] = f
            exact[n] = s
        ufs = []
        for name, args, res in self.uflog:
            a = [_num_to_float(model.eval(x, model_completion=True))[0] for x in args]
            r = _num_to_float(model.eval(res, model_completion=True))[0]
            ufs.append([name, a, r])
        return dict(obligation=oid, info=info, trace=list(self.trace), values=vals, exact=exact, uf=ufs, tags=dict(self.tags))

    def reach(self, oid):
        """reachability witness: counts feasible arrivals at an obligation site"""
        o = self._ob(oid)
        if self.feasible():
            o["reached"] = o.get("reached", 0) + 1

    # -- exploration
    def explore(self, harness, *args):
        self.todo = [[]]
        t0 = time.time()
        while self.todo:
            if self.stats["paths"] + self.stats["aborted"] >= self.max_paths or (self.max_time and time.time() - t0 > self.max_time):
                self.stats["truncated"] = len(self.todo)
                self.notes.append(f"exploration truncated with {len(self.todo)} prefixes pending")
                break
            self.prefix = self.todo.pop()
            self._reset_path()
            self.solver.push()
            try:
                harness(self, *args)
                self.stats.inc("paths")
                self.stats.inc("decisions", len(self.trace))
                if len(self.witnesses) < self.witness_limit and not self._path_failed:
                    self._witness()
            except Abort:
                self.stats.inc("aborted")
            except HarnessError as ex:
                self.stats.inc("aborted")
                if len(self.errors) < 20:
                    self.errors.append(f"HarnessError: {ex} @ {_site(ex)}")
            except Exception as ex:  # an exception of the code under test escaped the harness
                self._crash(ex)
            finally:
                self.solver.pop()
        return self

    def _dyadic_cons(self, k=16, bound=64):
        cons = []
        terms = list(self.inputs.values()) + [r for (_, _, r) in self.uflog][:40]
        for v in terms:
            if z3.is_real(v) and not z3.is_fp(v):
                cons += [z3.IsInt(v * k), v >= -bound, v <= bound]
        return cons

    def _robust_model(self, neg, model, eps=2.0 ** -12):
        """a counterexample away from the boundaries of the comparisons it depends on (z3's simplex
        returns vertices: values sitting exactly on tolerances, which a float replay cannot
        reproduce).  Every comparison atom of the path condition and of the negated obligation keeps
        the truth value it has in `model`, with a margin eps where possible (soft constraints)."""
        atoms = {}

        def walk(e, depth=0):
            if depth > 60 or not z3.is_bool(e):
                return
            if z3.is_app(e):
                k = e.decl().kind()
                if k in (z3.Z3_OP_LE, z3.Z3_OP_LT, z3.Z3_OP_GE, z3.Z3_OP_GT) and z3.is_arith(e.arg(0)):
                    atoms[e.get_id()] = e
                    return
                for c in e.children():
                    walk(c, depth + 1)

        for a in list(self.solver.assertions())[-400:] + [neg]:
            walk(a)
        if not atoms or len(atoms) > 600:
            return None
        opt = z3.Optimize()
        opt.set("timeout", 6000)
        opt.add(*self.solver.assertions())
        opt.add(neg)
        e = _rv(eps)
        for a in atoms.values():
            l, r = a.arg(0), a.arg(1)
            k = a.decl().kind()
            try:
                d = model.eval(l - r, model_completion=True)
                neg_side = z3.is_true(z3.simplify(d < 0))
                pos_side = z3.is_true(z3.simplify(d > 0))
            except Exception:
                continue
            truth = z3.is_true(model.eval(a, model_completion=True))
            if neg_side or (not pos_side and truth and k in (z3.Z3_OP_LE, z3.Z3_OP_LT)) or (not pos_side and not truth and k in (z3.Z3_OP_GE, z3.Z3_OP_GT)):
                opt.add_soft(l - r <= -e)
            elif pos_side or (not neg_side and truth and k in (z3.Z3_OP_GE, z3.Z3_OP_GT)) or (not neg_side and not truth and k in (z3.Z3_OP_LE, z3.Z3_OP_LT)):
                opt.add_soft(l - r >= e)
        t0 = time.time()
        try:
            r = opt.check()
        except z3.Z3Exception:
            return None
        self.stats.inc("queries")
        self.stats.inc("solver_s", time.time() - t0)
        if r == z3.sat:
            self.stats.inc("robust_models")
            return opt.model()
        return None

    def _dyadic_model(self, neg):
        if self.stats.get("dyadic_tries", 0) > 60:
            return None
        self.stats.inc("dyadic_tries")
        links = getattr(self, "_links", [])
        self.solver.set("timeout", 2000)
        try:
            t0 = time.time()
            r = self.solver.check(neg, *self._dyadic_cons(), *([] if not self.mulmode == "uf" else []))
            self.stats.inc("queries")
            self.stats.inc("solver_s", time.time() - t0)
            if r == z3.sat:
                m = self.solver.model()
                # under uninterpreted products the dyadic model must still be consistent with the
                # true products of the logged applications
                if self.mulmode == "uf":
                    for name, args, res in self.uflog:
                        if name == "MUL":
                            if not z3.is_true(m.eval(res == args[0] * args[1], model_completion=True)):
                                return None
                        elif name == "DIV":
                            if not z3.is_true(m.eval(z3.Or(args[1] == 0, res * args[1] == args[0]), model_completion=True)):
                                return None
                return m
        finally:
            self.solver.set("timeout", self.timeout_ms)
        return None

    def _witness(self):
        """a concrete input that drives the real code down this (fully proved) path: replayed on
        the real numpy/scipy by the runner as a differential check of the model library.
        Dyadic values in a small range are requested so that the float replay is exact."""
        cons = []
        terms = list(self.inputs.values()) + [r for (_, _, r) in self.uflog][:40]
        for v in terms:
            if z3.is_real(v) and not z3.is_fp(v):
                cons += [z3.IsInt(v * 16), v >= -64, v <= 64]
        old = self.nra_timeout_ms
        self.solver.set("timeout", 3000)
        self.nra_timeout_ms = 3000
        try:
            r = self.check(*cons)
            dy = True
            if r != z3.sat:
                r = self.check()
                dy = False
            if r == z3.sat:
                c = self._cex(self.model(), "witness", dict(dyadic=dy))
                self.witnesses.append(c)
        finally:
            self.solver.set("timeout", self.timeout_ms)
            self.nra_timeout_ms = old

    def _crash(self, ex):
        self.stats.inc("crashed")
        site = _site(ex)
        o = self._ob("nocrash")
        o["checked"] += 1
        r = self.check()
        model = self.model() if r == z3.sat else None
        if r == z3.sat and self.mulmode == "uf":
            # the path to the crash may only exist under the uninterpreted products: re-derive it
            # with the true products; unsat => the crash path is an artefact of the abstraction
            r, model = self._refine(z3.BoolVal(True), model, "nocrash")
        if r == z3.sat:
            o["failed"] += 1
            info = dict(exception=type(ex).__name__, message=str(ex)[:300], site=site)
            if len(o["cex"]) < 6 and not builtins.any(c["info"]["site"] == site and c["info"]["exception"] == info["exception"] for c in o["cex"]):
                o["cex"].append(self._cex(model, "nocrash", info))
        elif r == z3.unsat:
            self.stats.inc("vacuous")
            o["checked"] -= 1
        else:
            o["unknown"] += 1
            self.unknown.append(("crash", site))

    def summary(self):
        return dict(stats=dict(self.stats), obligations={k: {kk: vv for kk, vv in v.items()} for k, v in self.obl.items()}, unknown=self.unknown[:20], notes=self.notes, samples=self.samples, errors=self.errors, witnesses=self.witnesses)


def _site(ex):
    """innermost frame inside the repository under test, else innermost frame"""
    import traceback

    tb = traceback.extract_tb(ex.__traceback__)
    best = None
    for fr in tb:
        if "/pygradflow/" in fr.filename:
            best = fr
    fr = best or (tb[-1] if tb else None)
    if fr is None:
        return "?"
    fn = fr.filename
    if "/pygradflow/" in fn:
        fn = "pygradflow/" + fn.split("/pygradflow/", 1)[1]
    return f"{fn}:{fr.lineno}:{fr.name}"


# ---------------------------------------------------------------------------- concrete replay engine
class ReplayMismatch(BaseException):
    pass


class ConcreteEngine:
    """Same interface as Engine, but every input is the float recorded in a counterexample
    and the code under test runs on the real numpy/scipy."""

    mode = "concrete"

    def __init__(self, cex, tol=1e-9):
        self.cex = cex
        self.values = cex["values"]
        self.uftab = {}
        for name, args, res in cex.get("uf", []):
            self.uftab.setdefault(name, []).append((args, res))
        self.failed = []
        self.checked = []
        self.assumption_broken = []
        self._fresh = {}
        self.tags = {}
        self.tol = tol
        self.nra = False
        self.divmode = "z3"
        self.stats = Stats()
        self.notes = []
        self.missing = []

    def fresh_name(self, prefix):
        k = self._fresh.get(prefix, 0)
        self._fresh[prefix] = k + 1
        return f"{prefix}!{k}"

    def _get(self, name, default=0.0):
        if name not in self.values:
            self.missing.append(name)
            return default
        return self.values[name]

    def real(self, name, lo=None, hi=None, lo_strict=False, hi_strict=False):
        return float(self._get(name))

    def int(self, name, lo=None, hi=None):
        return int(self._get(name, 0))

    def bool(self, name):
        return builtins.bool(self._get(name, False))

    def fp(self, name, bits=64):
        v = float(self._get(name))
        if bits == 32:
            import numpy

            return numpy.float32(v)
        return v

    def fresh_real(self, prefix, register=True):
        return float(self._get(self.fresh_name(prefix)))

    def fresh_bool(self, prefix):
        return builtins.bool(self._get(self.fresh_name(prefix), False))

    def uf(self, name, *args):
        tab = self.uftab.get(name, [])
        best = None
        bd = None
        a = [float(x) for x in args]
        for ta, tr in tab:
            d = builtins.max([builtins.abs(x - y) for x, y in zip(a, ta)], default=0.0)
            if bd is None or d < bd:
                bd, best = d, tr
        if best is None:
            self.missing.append(f"uf {name}{a}")
            return 0.0
        if bd > 1e-6 * (1 + builtins.max([builtins.abs(x) for x in a], default=0.0)):
            self.notes.append(f"uf {name} evaluated {bd:.3g} away from the nearest recorded point")
        return float(best)

    def ufb(self, name, *args):
        return builtins.bool(self.uf(name, *args))

    def divide(self, a, b):
        return a / b

    def assume(self, cond):
        if not cond:
            self.assumption_broken.append(len(self.checked))

    def feasible(self):
        return True

    def prove(self, cond, oid, info=None):
        ok = builtins.bool(cond)
        self.checked.append(oid)
        if not ok:
            self.failed.append(dict(obligation=oid, info=info, pos=len(self.checked), before_missing=not self.missing))
        return ok

    def reach(self, oid):
        pass

    def branch(self, c):
        return builtins.bool(c)
