"""symx: solver-based checking of the real pygradflow source (see ../DESIGN.md)."""
