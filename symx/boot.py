"""symx.boot -- bind numpy/scipy to the model library, import the real pygradflow source from
the repository's working tree, and shadow the builtins that would otherwise realise symbolic
values (float/max/min/math.*) in each pygradflow module's globals.

In concrete (replay) mode nothing is replaced: pygradflow runs on the real numpy/scipy.
"""
import builtins
import importlib
import logging
import math as _math
import os
import sys
import types

from . import core

REPO = os.environ.get("SYMX_REPO", "/repo")
MODE = None
np = None
sp = None

_PGF_MODULES = [
    "pygradflow.log",
    "pygradflow.params",
    "pygradflow.problem",
    "pygradflow.util",
    "pygradflow.eval",
    "pygradflow.active_set",
    "pygradflow.iterate",
    "pygradflow.scale",
    "pygradflow.cons_problem",
    "pygradflow.transform",
    "pygradflow.status",
    "pygradflow.result",
    "pygradflow.timer",
    "pygradflow.callbacks",
    "pygradflow.display",
    "pygradflow.penalty",
    "pygradflow.controller",
    "pygradflow.implicit_func",
    "pygradflow.deriv_check",
    "pygradflow.linear_solver",
    "pygradflow.linear_solver.linear_solver",
    "pygradflow.linear_solver.lu_solver",
    "pygradflow.linear_solver.gmres_solver",
    "pygradflow.linear_solver.minres_solver",
    "pygradflow.step.step_solver_error",
    "pygradflow.step.solver.step_solver",
    "pygradflow.step.solver.standard_step_solver",
    "pygradflow.step.solver.scaled_step_solver",
    "pygradflow.step.solver.extended_step_solver",
    "pygradflow.step.solver.symmetric_step_solver",
    "pygradflow.step.solver.asymmetric_step_solver",
    "pygradflow.step.solver",
    "pygradflow.newton",
    "pygradflow.step.step_control",
    "pygradflow.step.newton_control",
    "pygradflow.step.exact_control",
    "pygradflow.step.fixed_control",
    "pygradflow.step.residuum_ratio_control",
    "pygradflow.step.distance_ratio_control",
    "pygradflow.step.cond_estimate",
    "pygradflow.solver",
    "pygradflow.integration.events",
    "pygradflow.integration.flow",
    "pygradflow.integration.problem_switches",
    "pygradflow.integration.restricted_flow",
    "pygradflow.integration.integration_solver",
]


def symfloat(v=0.0):
    if core.is_sym(v):
        if isinstance(v, core.SI):
            return core.SR(core.z3.ToReal(v.e))
        return v
    from . import snp

    if isinstance(v, snp.ndarray):
        assert v.size == 1
        return symfloat(v.items[0])
    return builtins.float(v)


def symmax(*a, **kw):
    seq = list(a[0]) if len(a) == 1 else list(a)
    if kw or not builtins.any(core.is_sym(x) for x in seq):
        return builtins.max(seq, **kw)
    r = seq[0]
    for b in seq[1:]:
        r = core.smax(r, b)
    return r


def symmin(*a, **kw):
    seq = list(a[0]) if len(a) == 1 else list(a)
    if kw or not builtins.any(core.is_sym(x) for x in seq):
        return builtins.min(seq, **kw)
    r = seq[0]
    for b in seq[1:]:
        r = core.smin(r, b)
    return r


class SymMath(types.ModuleType):
    """math.* over symbolic reals.  log/exp are uninterpreted with the facts the controllers
    rely on: exp > 0, strict monotonicity on the terms that occur, exp(log v) = v."""

    def __init__(self):
        super().__init__("math")
        for k in dir(_math):
            if not k.startswith("_"):
                setattr(self, k, getattr(_math, k))
        self.isfinite = self._isfinite
        self.isinf = self._isinf
        self.isnan = lambda v: False if core.is_sym(v) else _math.isnan(v)
        self.log = self._log
        self.exp = self._exp
        self.sqrt = self._sqrt
        self.pow = self._pow
        self.ceil = self._ceil
        self.fabs = core.sabs

    @staticmethod
    def _isfinite(v):
        if isinstance(v, core.SR):
            return True if v.bad is None else core.SB(core.z3.Not(v.bad))
        if core.is_sym(v):
            return True
        return _math.isfinite(v)

    @staticmethod
    def _isinf(v):
        if core.is_sym(v):
            return False
        return _math.isinf(v)

    @staticmethod
    def _log(v, base=None):
        if not core.is_sym(v):
            return _math.log(v) if base is None else _math.log(v, base)
        z3 = core.z3
        E = core.ENG
        f = z3.Function("LOG", z3.RealSort(), z3.RealSort())
        g = z3.Function("EXP", z3.RealSort(), z3.RealSort())
        r = f(v.e)
        E.solver.add(g(r) == v.e)
        for (w, lw) in getattr(E, "_logs", []):
            E.solver.add((v.e < w) == (r < lw), (v.e == w) == (r == lw))
        E._logs = getattr(E, "_logs", []) + [(v.e, r)]
        E.uflog.append(("LOG", [v.e], r))
        out = core.SR(r)
        return out if base is None else out / _math.log(base)

    @staticmethod
    def _exp(v):
        if not core.is_sym(v):
            return _math.exp(v)
        z3 = core.z3
        E = core.ENG
        g = z3.Function("EXP", z3.RealSort(), z3.RealSort())
        r = g(v.e)
        E.solver.add(r > 0, (v.e > 0) == (r > 1), (v.e == 0) == (r == 1))
        for (w, ew) in getattr(E, "_exps", []):
            E.solver.add((v.e < w) == (r < ew), (v.e == w) == (r == ew))
        E._exps = getattr(E, "_exps", []) + [(v.e, r)]
        E.uflog.append(("EXP", [v.e], r))
        return core.SR(r)

    @staticmethod
    def _sqrt(v):
        from . import snp

        return snp._sqrt1(v) if core.is_sym(v) else _math.sqrt(v)

    @staticmethod
    def _pow(a, b):
        if not core.is_sym(a) and not core.is_sym(b):
            return _math.pow(a, b)
        if core.is_sym(b) or not (0.0 < b < 1.0):
            raise core.HarnessError("math.pow on symbolic values")
        # v ** p with a concrete exponent 0 < p < 1 (a root): uninterpreted with the order facts;
        # a negative base is math.pow's domain error
        z3 = core.z3
        E = core.ENG
        v = a if isinstance(a, core.SR) else core.SR(z3.ToReal(a.e))
        if v < 0:
            raise ValueError("math domain error")
        f = z3.Function("POW", z3.RealSort(), z3.RealSort(), z3.RealSort())
        r = f(v.e, core._rv(b))
        E.solver.add(r >= 0, (v.e == 0) == (r == 0), (v.e < 1) == (r < 1), (v.e == 1) == (r == 1))
        key = "_pows_%r" % b
        for (w, pw) in getattr(E, key, []):
            E.solver.add((v.e < w) == (r < pw), (v.e == w) == (r == pw))
        setattr(E, key, getattr(E, key, []) + [(v.e, r)])
        E._dirty = True
        E.uflog.append(("POW", [v.e, core._rv(b)], r))
        return core.SR(r, v.bad)

    @staticmethod
    def _ceil(v):
        if not core.is_sym(v):
            return _math.ceil(v)
        raise core.HarnessError("math.ceil on symbolic values")


class Clock:
    """stand-in for the `time` module seen by pygradflow.timer: every read is a fresh
    non-decreasing instant.  In concrete mode the instants come from the recorded model."""

    def __init__(self, E, prefix="t"):
        self.E = E
        self.prefix = prefix
        self.reads = []

    def time(self):
        E = self.E
        t = E.fresh_real(self.prefix)
        if self.reads:
            E.assume(t >= self.reads[-1])
        self.reads.append(t)
        return t

    perf_counter = time
    monotonic = time


def boot(mode="sym", repo=None):
    """returns the dict of loaded pygradflow modules keyed by short name"""
    global MODE, np, sp
    repo = repo or REPO
    if MODE is not None:
        assert MODE == mode
        return sys.modules["pygradflow"]
    MODE = mode
    if mode == "sym":
        from . import snp, ssp

        for k in list(sys.modules):
            if k.split(".")[0] in ("numpy", "scipy", "pygradflow"):
                del sys.modules[k]
        sys.modules["numpy"] = snp.module()
        sys.modules["numpy.linalg"] = snp.linalg
        sys.modules["numpy.random"] = snp.random
        sys.modules.update(ssp.modules())
        np = sys.modules["numpy"]
        sp = sys.modules["scipy"]
    else:
        import numpy
        import scipy
        import scipy.sparse
        import scipy.sparse.linalg

        np = numpy
        sp = scipy
    if repo not in sys.path:
        sys.path.insert(0, repo)
    for m in _PGF_MODULES:
        importlib.import_module(m)
    pg = sys.modules["pygradflow"]
    f = os.path.realpath(sys.modules["pygradflow.solver"].__file__)
    if not f.startswith(os.path.realpath(repo) + os.sep):
        raise core.HarnessError(f"pygradflow imported from {f}, not from {repo}")
    logging.getLogger("gradflow").setLevel(logging.ERROR)
    if mode == "sym":
        from . import snp as _snp

        _snp.float64.aliases = tuple(_snp.float64.aliases) + (symfloat,)
        sm = SymMath()
        for name, mod in list(sys.modules.items()):
            if name.startswith("pygradflow") and mod is not None:
                d = mod.__dict__
                d["float"] = symfloat
                d["max"] = symmax
                d["min"] = symmin
                if "math" in d:
                    d["math"] = sm
    return pg


def mod(name):
    return sys.modules["pygradflow." + name] if name else sys.modules["pygradflow"]
