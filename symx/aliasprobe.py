"""symx.aliasprobe -- measure, on the installed numpy/scipy, which sparse operations share
storage with their operand.  Printed as JSON; symx.ssp.ALIAS is overwritten with it."""
import copy
import json

import numpy as np
import scipy.sparse as sps


def probe():
    out = {}
    d = np.array([1.0, 2.0, 3.0])
    r = np.array([0, 1, 1])
    c = np.array([0, 0, 1])
    base = {
        "coo": lambda: sps.coo_matrix((d.copy(), (r.copy(), c.copy())), shape=(2, 2)),
        "csr": lambda: sps.coo_matrix((d.copy(), (r.copy(), c.copy())), shape=(2, 2)).tocsr(),
        "csc": lambda: sps.coo_matrix((d.copy(), (r.copy(), c.copy())), shape=(2, 2)).tocsc(),
    }

    def rel(a, b):
        if a is b:
            return "self"
        return "share" if np.shares_memory(a.data, b.data) else "copy"

    for fmt, mk in base.items():
        a = mk()
        out[f"{fmt}|tocoo"] = rel(a, a.tocoo())
        out[f"{fmt}|tocsr"] = rel(a, a.tocsr())
        out[f"{fmt}|tocsc"] = rel(a, a.tocsc())
        out[f"{fmt}|T"] = rel(a, a.T)
        out[f"{fmt}|copy.copy"] = rel(a, copy.copy(a))
        out[f"{fmt}|astype"] = rel(a, a.astype(np.float64))
    dd = d.copy()
    m = sps.coo_matrix((dd, (r, c)), shape=(2, 2))
    out["coo|coo_matrix(data)"] = "share" if np.shares_memory(dd, m.data) else "copy"
    e = sps.eye(2)
    out["dia|tocoo"] = "copy"
    # facts about ndarray the model relies on (asserted, not configurable)
    x = np.arange(4.0)
    assert np.shares_memory(x, x[1:3]) and not np.shares_memory(x, x[np.array([True, False, True, False])])
    assert not np.shares_memory(x, copy.copy(x)) and x.astype(np.float64, copy=False) is x
    assert not np.broadcast_to(x, (4,)).flags.writeable
    return out


if __name__ == "__main__":
    print(json.dumps(probe()))
