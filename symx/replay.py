"""symx.replay -- re-run one recorded solver counterexample against the REAL code on the REAL
numpy/scipy (no model library in this process).  exit 1 = the violation reproduced,
exit 0 = it did not, exit 2 = the replay itself could not be carried out."""
import importlib
import json
import os
import sys
import traceback

VERIF = os.path.dirname(os.path.dirname(os.path.abspath(__file__)))


def replay(path):
    from symx import boot, core

    blob = json.load(open(path))
    cex = blob["cex"]
    boot.boot("concrete")
    E = core.ConcreteEngine(cex)
    core.set_engine(E)
    E.tags.update(dict(module=blob["module"], fn=blob["fn"], shape=blob["shape"]))
    mod = importlib.import_module("harness." + blob["module"])
    want = cex["obligation"]
    info = cex.get("info") or {}
    try:
        getattr(mod, blob["fn"])(E, blob["shape"])
    except core.Abort:
        pass
    except core.HarnessError as ex:
        print(f"REPLAY harness-error {ex}")
        return 2
    except Exception as ex:
        site = core._site(ex)
        if want == "nocrash":
            same = type(ex).__name__ == info.get("exception")
            print(f"REPLAY {'reproduced' if same else 'different'} crash {type(ex).__name__}: {str(ex)[:200]} @ {site}")
            return 1 if same else 0
        print(f"REPLAY unexpected exception {type(ex).__name__}: {str(ex)[:200]} @ {site}")
        traceback.print_exc()
        return 0
    # a failure counts if it happened before the replay ran past the recorded model (inputs created
    # after the failing obligation have no recorded value) and before any assumption broke
    first_broken = min(E.assumption_broken) if E.assumption_broken else None
    hit = [f for f in E.failed if f["obligation"] == want and f.get("before_missing", True) and (first_broken is None or f["pos"] <= first_broken)]
    if not hit and E.assumption_broken:
        print(f"REPLAY not-reproduced (an assumption of the harness does not hold for the rounded model; missing={E.missing[:3]})")
        return 0
    if hit:
        print(f"REPLAY reproduced {want} on the real code: {hit[0].get('info')}")
        return 1
    other = [f["obligation"] for f in E.failed]
    print(f"REPLAY not-reproduced {want} (checked {len(E.checked)} obligations, failed others: {other[:4]}, missing={E.missing[:3]}, notes={E.notes[:2]})")
    return 0


def witness(path):
    """replay of a proved path's witness input: every obligation must hold on the real code"""
    from symx import boot, core

    blob = json.load(open(path))
    cex = blob["cex"]
    E = core.ConcreteEngine(cex)
    core.set_engine(E)
    E.tags.update(dict(module=blob["module"], fn=blob["fn"], shape=blob["shape"]))
    mod = importlib.import_module("harness." + blob["module"])
    try:
        getattr(mod, blob["fn"])(E, blob["shape"])
    except core.Abort:
        return "skipped", "bound reached"
    except core.HarnessError as ex:
        return "skipped", f"harness-error {ex}"
    except Exception as ex:
        return "mismatch", f"exception {type(ex).__name__}: {str(ex)[:150]} @ {core._site(ex)}"
    if E.assumption_broken or E.missing:
        return "skipped", f"rounded model leaves the harness assumptions / path (missing={E.missing[:2]})"
    if E.failed:
        return "mismatch", f"obligations proved symbolically fail on the real code: {[f['obligation'] for f in E.failed][:4]}"
    return "ok", f"{len(E.checked)} obligations hold on the real code"


if __name__ == "__main__":
    sys.path.insert(0, VERIF)
    if sys.argv[1] == "--batch":
        from symx import boot

        boot.boot("concrete")
        for f in sys.argv[2:]:
            try:
                st, detail = witness(f)
            except BaseException as ex:  # noqa
                st, detail = "skipped", f"{type(ex).__name__}: {ex}"
            print(f"WITNESS {st} {f} :: {detail}", flush=True)
        sys.exit(0)
    sys.exit(replay(sys.argv[1]))
