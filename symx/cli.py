import argparse
import os
import sys

VERIF = os.path.dirname(os.path.dirname(os.path.abspath(__file__)))
sys.path.insert(0, VERIF)


def main():
    ap = argparse.ArgumentParser()
    ap.add_argument("prop")
    ap.add_argument("--tier", default=os.environ.get("VERIF_TIER", "quick"))
    ap.add_argument("--replay")
    ap.add_argument("--jobs", type=int, default=None)
    a = ap.parse_args()
    seed = int(os.environ.get("VERIF_SEED", "0") or 0)
    if a.replay:
        from symx import run

        ok, detail = run.run_replay(a.replay)
        print(detail)
        if ok:
            print(f"VIOLATION property={a.prop} replay={a.replay}")
        sys.exit(1 if ok else 0)
    from symx import run

    sys.exit(run.main(a.prop, a.tier, seed, a.jobs))


if __name__ == "__main__":
    main()
