import sys, logging; sys.path.insert(0,'/repo')
import numpy as np, scipy as sp
from pygradflow.problem import Problem
from pygradflow.params import *
from pygradflow.solver import Solver
from pygradflow.scale import Scaling
from pygradflow.callbacks import CallbackType
logging.getLogger('gradflow').setLevel(logging.ERROR)
class QP(Problem):
    # min 1/2|x|^2 - x0  s.t. 1 <= x0 + 2 x1 <= 3 (ranged) ; x0 - x1 = 0.5 (offset eq)
    def __init__(s, fmt='coo'):
        super().__init__(np.array([-5.,-5.]), np.array([5.,5.]), cons_lb=np.array([1.,.5]), cons_ub=np.array([3.,.5]))
        s.J = getattr(sp.sparse, fmt+'_matrix')(np.array([[1.,2.],[1.,-1.]])); s.H = sp.sparse.coo_matrix(np.eye(2)); s.fmt=fmt
        s.cbuf=None
    def obj(s,x): return 0.5*x.dot(x)-x[0]
    def obj_grad(s,x): return x-np.array([1.,0.])
    def cons(s,x): return s.J.dot(x)
    def cons_jac(s,x): return s.J
    def lag_hess(s,x,y): return s.H
print('--- C11: cached COO Jacobian under scaling')
for fmt in ['coo','csr']:
    p=QP(fmt); J0=p.J.toarray().copy(); H0=p.H.toarray().copy()
    sc=Scaling(np.array([1,-1]),np.array([2,0]))
    try: r=Solver(p, Params(scaling=sc, scaling_type=ScalingType.Custom, iteration_limit=200)).solve(np.zeros(2), np.zeros(2))
    except Exception as e: print(fmt,'EXC',e); r=type('R',(),dict(status=None,x=None))
    print(fmt, r.status, 'J changed:', not np.array_equal(J0,p.J.toarray()), 'H changed:', not np.array_equal(H0,p.H.toarray()), r.x)
print('--- C11: cached cons array, no scaling, offset equality')
class QPc(QP):
    def cons(s,x):
        if s.cbuf is None: s.cbuf={}
        k=x.tobytes()
        if k not in s.cbuf: s.cbuf[k]=s.J.dot(x)
        return s.cbuf[k]
try: r1=Solver(QPc('csr'), Params(iteration_limit=300)).solve(np.zeros(2),np.zeros(2))
except Exception as e: print('memo EXC', type(e).__name__, e); r1=type('R',(),dict(status=None,x=None,iterations=None))
r2=Solver(QP('csr'), Params(iteration_limit=300)).solve(np.zeros(2),np.zeros(2))
print('memo', r1.status, r1.x, r1.iterations, '| fresh', r2.status, r2.x, r2.iterations)
print('--- C12: model_times vs step sizes')
p=QP('csr'); s=Solver(p, Params(collect_path=True, iteration_limit=300)); dts=[]
orig=s._compute_step
def rec(c,it,rho,dt,d,t):
    r=orig(c,it,rho,dt,d,t); dts.append((dt,r.accepted)); return r
s._compute_step=rec
r=s.solve(np.zeros(2),np.zeros(2)); acc=[dt for dt,a in dts if a]
print(r.status, 'diff(model_times)[:4]=',np.diff(r.model_times)[:4], 'dt used[:4]=',acc[:4])
print('--- C09: DEBUG level')
lg=logging.getLogger('gradflow'); lg.setLevel(logging.DEBUG); lg.addHandler(logging.NullHandler()); lg.propagate=False
try:
    r=Solver(QP('csr'), Params(iteration_limit=300, display_interval=0.0)).solve(np.zeros(2),np.zeros(2)); print('DEBUG ok', r.status)
except Exception as e: print('DEBUG crash:', type(e).__name__, e)
lg.setLevel(logging.ERROR)
print('--- C20: GradJac with small entries')
g=np.array([1.0,1.0]); J=sp.sparse.coo_matrix(np.array([[0.3,0.1],[8.,3.]]))
sc=Scaling.from_grad_jac(g,J); print('cons_weights',sc.cons_weights, 'scaled row max', [np.ldexp(np.abs(J.toarray()[i]).max(), int(sc.cons_weights[i])) for i in range(2)])
K=sp.sparse.coo_matrix(np.array([[0.3,0.2],[0.2,0.1]])); 
from pygradflow.scale import scale_symmetric
D=scale_symmetric(K); A=np.abs(K.toarray())*np.exp2(D)[:,None]*np.exp2(D)[None,:]; print('KKT D',D,'col sums',A.sum(axis=0))
