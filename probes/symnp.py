# throw-away mini shim: just enough numpy/scipy.sparse for scale.py + cons_problem.py
import sys, types, z3, eng
from eng import SR, SB
inf = float('inf'); ndarray = None
float64='f8'; float32='f4'; int64='i8'; int32='i4'; int16='i2'; int8='i1'
W=3
def pow2(e):   # e: python int or z3 Int expr, bounded |e|<=3W -> exact constant table (linear)
    if isinstance(e,int): return z3.RealVal(2)**e if e>=0 else 1/(z3.RealVal(2)**(-e))
    r = z3.RealVal(0)
    for k in range(-3*W,3*W+1):
        r = z3.If(e==k, z3.Q(2**k,1) if k>=0 else z3.Q(1,2**-k), r)
    return r
class SI:  # symbolic int
    def __init__(s,e): s.e = e if isinstance(e,z3.ExprRef) else z3.IntVal(e)
    def _o(a,b): return b.e if isinstance(b,SI) else z3.IntVal(b)
    def __add__(a,b): return SI(a.e+a._o(b))
    __radd__=__add__
    def __sub__(a,b): return SI(a.e-a._o(b))
    def __rsub__(a,b): return SI(a._o(b)-a.e)
    def __neg__(a): return SI(-a.e)
class Arr:
    def __init__(s, items, dtype=float64): s.items=list(items); s.dtype=dtype
    @property
    def shape(s): return (len(s.items),)
    @property
    def ndim(s): return 1
    def __len__(s): return len(s.items)
    def __iter__(s): return iter(s.items)
    def __getitem__(s,i):
        if isinstance(i,slice): return Arr(s.items[i], s.dtype)   # (view semantics not modelled in probe)
        if isinstance(i,Arr): return Arr([s.items[j] for j in i.items], s.dtype)
        return s.items[i]
    def __setitem__(s,i,v): s.items[i]=v
    def _bin(a,b,f):
        bs = b.items if isinstance(b,Arr) else [b]*len(a.items)
        return Arr([f(x,y) for x,y in zip(a.items,bs)], a.dtype)
    def __add__(a,b): return a._bin(b, lambda x,y:x+y)
    def __sub__(a,b): return a._bin(b, lambda x,y:x-y)
    def __neg__(a): return Arr([-x for x in a.items], a.dtype)
    def __iadd__(a,b):
        a.items[:] = a._bin(b, lambda x,y:x+y).items; return a
    def __le__(a,b): return a._bin(b, lambda x,y:x<=y)
    def __lt__(a,b): return a._bin(b, lambda x,y:x<y)
    def __gt__(a,b): return a._bin(b, lambda x,y:x>y)
    def all(s):
        for x in s.items:
            if not x: return False
        return True
def copy(a): return Arr(a.items, a.dtype)
def zeros(shape, dtype=float64): 
    n = shape[0] if isinstance(shape,tuple) else shape
    return Arr([0.0]*n if dtype!=int else [0]*n, int64 if dtype==int else dtype)
def array(x, dtype=float64): return Arr(x, int64 if dtype==int else dtype)
def concatenate(xs): 
    r=[]; [r.extend(a.items) for a in xs]; return Arr(r)
def arange(n): return Arr(list(range(n)), int64)
def full(shape, fill_value, dtype=float64): return Arr([fill_value]*shape[0], dtype)
def _ld(v,e):
    if isinstance(e,int) and not isinstance(v,SR): return v*2.0**e
    v = v if isinstance(v,SR) else SR(v)
    return SR(v.e*pow2(e.e if isinstance(e,SI) else e))
def ldexp(x,e):
    if isinstance(x,Arr):
        es = e.items if isinstance(e,Arr) else [e]*len(x)
        return Arr([_ld(v,k) for v,k in zip(x.items,es)])
    return _ld(x,e)
class coo_matrix:
    format='coo'
    def __init__(s, arg, shape=None):
        data,(rows,cols)=arg; s.data=data if isinstance(data,Arr) else Arr(data); s.row=rows if isinstance(rows,Arr) else Arr(rows,int64); s.col=cols if isinstance(cols,Arr) else Arr(cols,int64); s.shape=shape
    def tocoo(s, copy=False): return coo_matrix((Arr(s.data.items),(s.row,s.col)),s.shape) if copy else s
class csr_like(coo_matrix):   # csr/csc: tocoo always builds new arrays (scipy semantics)
    format='csr'
    def tocoo(s, copy=True): return coo_matrix((Arr(s.data.items),(Arr(s.row.items,int64),Arr(s.col.items,int64))),s.shape)
def bmat(blocks, format=None):
    # horizontal/vertical block stacking into a fresh COO (scipy: always new arrays)
    data=[];rows=[];cols=[]; r0=0
    for brow in blocks:
        c0=0; h=None
        for b in brow:
            if b is None: continue
            b=b.tocoo()
            data+=b.data.items; rows+=[r+r0 for r in b.row.items]; cols+=[c+c0 for c in b.col.items]
            c0+=b.shape[1]; h=b.shape[0]
        r0+=h
    return coo_matrix((data,(rows,cols)),shape=(r0,c0))
def install():
    np = types.ModuleType('numpy'); np.__dict__.update({k:v for k,v in globals().items() if not k.startswith('_')})
    sp = types.ModuleType('scipy'); sp.sparse = types.ModuleType('scipy.sparse'); sp.sparse.spmatrix=object; sp.sparse.coo_matrix=coo_matrix; sp.sparse.bmat=bmat
    sys.modules.update({'numpy':np,'scipy':sp,'scipy.sparse':sp.sparse})
