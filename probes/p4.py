import sys; sys.path.insert(0,'/tmp/probe'); sys.path.insert(0,'/repo')
import eng, z3, time, symnp
from eng import SR, Engine
from symnp import Arr, SI, coo_matrix, csr_like, pow2
symnp.install()
from pygradflow.scale import Scaling, ScaledProblem     # the real source, executed against the shim
from pygradflow.cons_problem import ConstrainedProblem
from pygradflow.problem import Problem
fmt = sys.argv[1]
def R(n): return SR(z3.Real(n))
class User(Problem):
    def __init__(s):
        super().__init__(Arr([R('xl0'),R('xl1')]), Arr([R('xu0'),R('xu1')]), cons_lb=Arr([R('cl0')]), cons_ub=Arr([R('cu0')]))
        cls = coo_matrix if fmt=='coo' else csr_like
        s.J = cls((Arr([R('j00'),R('j01')]),([0,0],[0,1])), shape=(1,2)); s.c = Arr([R('c0')])
        s.calls=[]
    def obj(s,x): return 0
    def obj_grad(s,x): return Arr([R('g0'),R('g1')])
    def cons(s,x): s.calls.append(('cons',x)); return s.c          # cached object
    def cons_jac(s,x): s.calls.append(('jac',x)); return s.J       # cached object
    def lag_hess(s,x,y): raise NotImplementedError
def harness(E):
    for n in ['xl0','xl1','cl0']: E.assume(z3.Real(n) <= z3.Real(n.replace('l','u')))
    u = User()
    vw = Arr([SI(z3.Int('vw0')),SI(z3.Int('vw1'))], 'i8'); cw = Arr([SI(z3.Int('cw0'))],'i8')
    for w in ['vw0','vw1','cw0']: E.assume(z3.And(z3.Int(w)>=-3, z3.Int(w)<=3))
    p = ConstrainedProblem(ScaledProblem(u, Scaling(vw, cw)))
    J0 = [e.e for e in u.J.data.items]; c0=[e.e for e in u.c.items]
    x = Arr([R('x0'),R('x1')] + [R('s0')]*(p.num_vars-2))
    J = p.cons_jac(x)
    # C04: user's callback received the unscaled point; returned entries are 2^(cw_i - vw_j) J_ij (reference written directly in z3)
    xarg = u.calls[-1][1]
    for j in range(2): E.prove(xarg.items[j].e == z3.Real(f'x{j}')*pow2(-z3.Int(f'vw{j}')), f'C04 arg x{j}')
    c = p.cons(x)
    ref = z3.Real('c0')*pow2(z3.Int('cw0'))
    if p.num_vars==3: ref = ref - z3.Real('s0')
    else: ref = ref - z3.Real('cl0')*pow2(z3.Int('cw0'))
    E.prove(c.items[0].e == ref, 'C04 cons value')
    # C11: cached objects unchanged
    for k,e in enumerate(u.J.data.items): E.prove(e.e == J0[k], f'C11 J.data[{k}] unchanged')
    for k,e in enumerate(u.c.items): E.prove((e.e if isinstance(e,SR) else z3.RealVal(e)) == c0[k], f'C11 cons[{k}] unchanged')
E=Engine(); eng.ENG=E; t=time.time(); E.explore(harness)
print(fmt, E.stats, 'unk', len(E.unknown), 'wall', round(time.time()-t,2))
seen=set()
for what,m,tr in E.cex:
    if what in seen: continue
    seen.add(what); print('CEX', what, {str(d):m[d] for d in m.decls() if str(d) in ('vw0','vw1','cw0','cl0','cu0','j00','c0','s0')})
