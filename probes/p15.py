# L2' probe: real Solver.solve + compute_step + DistanceRatio/Exact controller + newton.py + ImplicitFunc.value_at;
# oracle enters through the PUBLIC hook Params.step_solver (a StepSolver returning arbitrary dx, dy)
import sys; sys.path.insert(0,'/tmp/probe'); sys.path.insert(0,'/repo')
import eng, z3, time, symnp2, builtins, types, math as _m
from eng import SR, SB, Engine, Abort
SR.__format__ = lambda s,spec: '<sym>'
from symnp2 import Arr, Dense
symnp2.install()
import pygradflow.timer as T
import pygradflow.solver as S
import pygradflow.eval as EV, pygradflow.controller as C
from pygradflow.problem import Problem
from pygradflow.params import Params, PenaltyUpdate, StepControlType, NewtonType
from pygradflow.status import SolverStatus
from pygradflow.callbacks import CallbackType
from pygradflow.implicit_func import ImplicitFunc
from pygradflow.step.solver.step_solver import StepSolver, StepResult
from pygradflow.step.step_solver_error import StepSolverError
def symfloat(v=0.0): return v if isinstance(v,SR) else builtins.float(v)
def symmax(*a):
    r=a[0]
    for b in a[1:]: r=symnp2._max(r,b)
    return r
for name,mod in list(sys.modules.items()):
    if name.startswith('pygradflow'): mod.__dict__['float']=symfloat; mod.__dict__['max']=symmax
EV.math = types.SimpleNamespace(isfinite=lambda v: True if isinstance(v,SR) else _m.isfinite(v))
LOG=z3.Function('log',z3.RealSort(),z3.RealSort()); EXP=z3.Function('exp',z3.RealSort(),z3.RealSort())
def slog(v):
    if not isinstance(v,SR): return _m.log(v)
    return SR(LOG(v.e))
def sexp(v):
    if not isinstance(v,SR): return _m.exp(v)
    r=EXP(v.e); eng.ENG.assume(r>0); return SR(r)
C.math = types.SimpleNamespace(log=slog, exp=sexp)
S.print_problem_stats = lambda *a: None
K=int(sys.argv[1]); ctrl=sys.argv[2]
R=z3.Real
f=z3.Function('f',z3.RealSort(),z3.RealSort()); g=z3.Function('g',z3.RealSort(),z3.RealSort())
class User(Problem):
    def __init__(s): super().__init__(Arr([SR(R('xl'))]), Arr([SR(R('xu'))]))
    def obj(s,x): return SR(f(x[0].e))
    def obj_grad(s,x): return Arr([SR(g(x[0].e))])
    def lag_hess(s,x,y): return Dense([[0.0]])
class Clock:
    def __init__(s,E): s.E=E; s.n=0; s.last=None
    def time(s):
        t=R(f't{s.n}'); s.n+=1
        if s.last is not None: s.E.assume(t>=s.last)
        s.last=t; return SR(t)
def harness(E):
    E.assume(R('xl')<=R('xu')); T.time=Clock(E)
    solves=[]
    class Oracle(StepSolver):
        def __init__(s, problem, params, iterate, dt, rho):
            super().__init__(problem, params); s._f=ImplicitFunc(problem, iterate, dt); s.dt=dt; s.rho=rho
        func=property(lambda s: s._f)
        def update_active_set(s, a): s._active_set=a
        def update_derivs(s, it): pass
        def solve(s, it):
            k=len(solves)
            if k>=2*K: raise Abort()
            fail=SB(z3.Bool(f'fail{k}'))
            if fail: solves.append(('fail',it)); raise StepSolverError('injected')
            dx=SR(R(f'dx{k}')); solves.append((dx,it)); return StepResult(it, Arr([dx]), Arr([]), s.active_set, None)
    lim=z3.Int('limit'); E.assume(z3.And(lim>=0, lim<=K))
    params=Params(step_solver=Oracle, step_control_type=StepControlType[ctrl], time_limit=SR(R('tl')), display_interval=SR(R('disp')))
    E.assume(z3.And(R('tl')>0, R('disp')>=0)); params.iteration_limit=SR(z3.ToReal(lim))
    solver=S.Solver(User(), params); trials=[]
    orig=solver._compute_step
    def rec(c,it,rho,dt,d,t):
        r=orig(c,it,rho,dt,d,t); trials.append(dict(it=it,dt=dt,lam=r.lamb,acc=r.accepted,nxt=r.iterate)); return r
    solver._compute_step=rec
    x0=SR(R('x0')); E.assume(z3.And(R('xl')<=x0.e, x0.e<=R('xu')))
    try: res=solver.solve(Arr([x0]), None)
    except Exception as e:
        if 'Inverse step size' in str(e): return
        raise
    def ex(v): return v.e if isinstance(v,SR) else z3.RealVal(v)
    for k,t in enumerate(trials):
        lam_prev = 1.0/t['dt'] if not isinstance(t['dt'],SR) else None
        if not t['acc']:
            # C15: rejected/failed => next inverse step size strictly larger than the one used (lamb = 1/dt)
            E.prove(ex(t['lam'])*ex(t['dt']) > 1, 'C15 rejected => lamb grows')
        E.prove(z3.And(R('xl')<=ex(t['nxt'].x[0]), ex(t['nxt'].x[0])<=R('xu')), 'C05 trial iterate in box')
E=Engine(); eng.ENG=E; t=time.time()
try: E.explore(harness)
except Exception:
    import traceback; traceback.print_exc()
print('K',K,ctrl,E.stats,'unk',len(E.unknown),'wall',round(time.time()-t,2))
seen=set()
for what,m,tr in E.cex:
    if what not in seen: seen.add(what); print('CEX',what)
