import sys; sys.path.insert(0,'/tmp/probe'); sys.path.insert(0,'/repo')
import eng, z3, time, symnp2
from eng import SR, SB, Engine, Abort
SR.__format__ = lambda s,spec: '<sym>'
from symnp2 import Arr, Dense
symnp2.install()
import pygradflow.timer as T
import pygradflow.solver as S                      # real source against the shim
from pygradflow.problem import Problem
from pygradflow.params import Params, PenaltyUpdate
from pygradflow.iterate import Iterate
from pygradflow.status import SolverStatus
from pygradflow.step.step_control import StepControlResult
from pygradflow.callbacks import CallbackType
K=int(sys.argv[1]); M=int(sys.argv[2]); pol=sys.argv[3] if len(sys.argv)>3 else 'DualNorm'
R=z3.Real
f=z3.Function('f',z3.RealSort(),z3.RealSort()); g=z3.Function('g',z3.RealSort(),z3.RealSort())
c=z3.Function('c',z3.RealSort(),z3.RealSort()); j=z3.Function('j',z3.RealSort(),z3.RealSort())
class User(Problem):
    def __init__(s):
        kw = dict(cons_lb=Arr([0.0]), cons_ub=Arr([0.0])) if M else {}
        super().__init__(Arr([SR(R('xl'))]), Arr([SR(R('xu'))]), **kw)
    def obj(s,x): return SR(f(x[0].e))
    def obj_grad(s,x): return Arr([SR(g(x[0].e))])
    def cons(s,x): return Arr([SR(c(x[0].e))])
    def cons_jac(s,x): return Dense([[SR(j(x[0].e))]])
    def lag_hess(s,x,y): return Dense([[0.0]])
class Clock:
    def __init__(s,E): s.E=E; s.n=0; s.last=None; s.reads=[]
    def time(s):
        t=R(f't{s.n}'); s.n+=1
        if s.last is not None: s.E.assume(t>=s.last)
        s.last=t; s.reads.append(t); return SR(t)
S.print_problem_stats = lambda *a: None
import builtins
def symfloat(v=0.0): return v if isinstance(v,SR) else builtins.float(v)
for name,mod in list(sys.modules.items()):
    if name.startswith('pygradflow'): mod.__dict__['float']=symfloat
import pygradflow.eval as EV, math as _m, types
EV.math = types.SimpleNamespace(isfinite=lambda v: True if isinstance(v,SR) else _m.isfinite(v))
def harness(E):
    E.assume(R('xl')<=R('xu'))
    clock=Clock(E); T.time=clock
    lim = z3.Int('limit'); E.assume(z3.And(lim>=0, lim<=K))
    class SI(eng.SR): pass
    tl = SR(R('time_limit')); E.assume(tl.e>0)
    params = Params(penalty_update=PenaltyUpdate[pol], collect_path=True, time_limit=tl, display_interval=SR(R('disp')))
    E.assume(R('disp')>=0)
    # symbolic iteration limit: python int needed by `iteration >= limit` -> use SR-like int wrapper
    params.iteration_limit = SR(z3.ToReal(lim))
    u=User(); solver=S.Solver(u, params)
    trials=[]; cbs=[]
    def oracle(controller, iterate, rho, dt, display, timer):
        k=len(trials)
        if k>=K: raise Abort()
        x=SR(R(f'x{k+1}')); E.assume(z3.And(R('xl')<=x.e, x.e<=R('xu')))
        y=Arr([SR(R(f'y{k+1}'))]) if M else Arr([])
        lam=SR(R(f'lam{k+1}')); E.assume(lam.e>0); lam.recip=SR(R(f'dt{k+1}')); E.assume(lam.recip.e>0)
        acc=SB(z3.Bool(f'acc{k+1}'))
        nxt=Iterate(solver.problem, params, Arr([x]), y, iterate.eval)
        accb = bool(acc)
        trials.append(dict(it=iterate, rho=rho, dt=dt, lam=lam, acc=accb, nxt=nxt, srho=solver.rho))
        return StepControlResult(nxt if accb else nxt, lam, None, None, accb)
    solver._compute_step = oracle
    solver.callbacks.register(CallbackType.ComputedStep, lambda it,nx,acc: cbs.append((it,nx,acc)))
    x0=SR(R('x0')); E.assume(z3.And(R('xl')<=x0.e, x0.e<=R('xu')))
    try:
        res = solver.solve(Arr([x0]), Arr([SR(R('y0'))]) if M else None)
    except Exception as e:
        if 'Inverse step size' in str(e):
            E.prove(trials[-1]['lam'].e >= params.lamb_max, 'C15 abort only at lamb_max'); return
        raise
    lime = z3.ToReal(lim)
    E.prove(z3.RealVal(res.iterations) <= lime, 'C02 iterations<=limit')
    E.prove((z3.RealVal(res.iterations)==lime) == z3.BoolVal(res.status==SolverStatus.IterationLimit), 'C02 IterationLimit iff count==limit')
    if res.status==SolverStatus.TimeLimit:
        E.prove(clock.reads[-2]-clock.reads[0] >= tl.e if False else z3.Or([t - clock.reads[0] >= tl.e for t in clock.reads]), 'C02 TimeLimit only after deadline')
    assert res.iterations==len(trials)==len(cbs), 'C12 count'
    prev=None; last=None
    for k,t in enumerate(trials):
        E.prove(t['rho'].e > 0 if isinstance(t['rho'],SR) else z3.BoolVal(t['rho']>0), 'C16 rho>0')
        if k>0:
            p=trials[k-1]
            a = t['rho'].e if isinstance(t['rho'],SR) else z3.RealVal(t['rho']); b = p['rho'].e if isinstance(p['rho'],SR) else z3.RealVal(p['rho'])
            E.prove(a>=b, 'C16 rho monotone')
            E.prove(t['dt'].e==p['lam'].recip.e, 'C15 dt == 1/lamb_prev')
            E.prove(p['lam'].e < params.lamb_max, 'C15 no trial after lamb_max')
    # C12: model times advance by the step size *used* for each accepted step
    mt = res.model_times.items; accd=[t for t in trials if t['acc'] and t is not None]
    acc_eff=[cb for cb in cbs]
    changed=[t for t in trials if t['acc']]
    if pol in ('DualNorm','Constant') and len(mt)==len(changed)+1:
        for i,t in enumerate(changed):
            a=mt[i+1]; b=mt[i]
            ae = a.e if isinstance(a,SR) else z3.RealVal(a); be = b.e if isinstance(b,SR) else z3.RealVal(b)
            E.prove(ae-be == (t['dt'].e if isinstance(t['dt'],SR) else z3.RealVal(t['dt'])), 'C12 model time advances by dt used')
    E.prove(z3.BoolVal(len(mt)==res.num_accepted_steps+1), 'C12 path len == accepted+1')
    print_once.setdefault('n',0)
print_once={}
E=Engine(); eng.ENG=E; t=time.time()
try: E.explore(harness)
except Exception as e:
    import traceback; traceback.print_exc()
print('K',K,'M',M,pol,E.stats,'unk',len(E.unknown),'wall',round(time.time()-t,2))
seen=set()
for what,m,tr in E.cex:
    if what in seen: continue
    seen.add(what); print('CEX',what)
