import sys, logging; sys.path.insert(0,'/repo')
import numpy as np, scipy as sp
from pygradflow.problem import Problem
from pygradflow.params import *
from pygradflow.integration.integration_solver import IntegrationSolver
logging.getLogger('gradflow').setLevel(logging.CRITICAL)
class P(Problem):
    def __init__(s): super().__init__(np.array([0.]), np.array([10.]), cons_lb=np.array([0.]), cons_ub=np.array([0.]))
    def obj(s,x): return -1e-3*x[0]
    def obj_grad(s,x): return np.array([-1e-3])
    def cons(s,x): return np.array([x[0]+5e-7])
    def cons_jac(s,x): return sp.sparse.coo_matrix(np.array([[1.]]))
    def lag_hess(s,x,y): return sp.sparse.coo_matrix((1,1))
for rho in (1e-8, 1e6):
    r=IntegrationSolver(P(), Params(rho=rho, iteration_limit=5)).solve(np.array([0.]), np.array([0.]))
    g=P().obj_grad(r.x)+P().cons_jac(r.x).T.dot(r.y)+r.d
    print('rho',rho, r.status, 'x',r.x,'y',r.y,'d',r.d,'stationarity residual',np.abs(g).max(),'iters',r.iterations)
print('--- observation O1: IntegrationSolver with iteration_limit=0/1')
from pygradflow.solver import Solver
for lim in (0,1):
    r=IntegrationSolver(P(), Params(iteration_limit=lim)).solve(np.array([0.]), np.array([0.])); r2=Solver(P(), Params(iteration_limit=lim)).solve(np.array([0.]), np.array([0.]))
    print('limit',lim,'IntegrationSolver:',r.status.name,'iterations',r.iterations,'| Solver:',r2.status.name,'iterations',r2.iterations)
