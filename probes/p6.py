import numpy as np, scipy as sp, inspect
for fmt in ['coo','csr','csc']:
    A = getattr(sp.sparse, fmt+'_matrix')(np.array([[1.,2.],[1.,-1.]]))
    B = A.tocoo()
    print(fmt, 'same obj', B is A, 'shares data', np.shares_memory(B.data, A.data))
    C = A.astype(np.float64); print('  astype same obj', C is A, 'shares', np.shares_memory(C.data, A.data))
    import copy; D=copy.copy(A); print('  copy.copy shares', np.shares_memory(D.data, A.data))
print(inspect.signature(sp.sparse.csr_matrix.tocoo))
