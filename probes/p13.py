import sys, logging; sys.path.insert(0,'/repo')
import numpy as np, scipy as sp
from pygradflow.problem import Problem
from pygradflow.params import *
from pygradflow.solver import Solver
from pygradflow.callbacks import CallbackType
logging.getLogger('gradflow').setLevel(logging.CRITICAL)
class NL(Problem):
    def __init__(s, lb=-5., ub=5.): super().__init__(np.array([lb,lb]), np.array([ub,ub]), cons_lb=np.array([1.]), cons_ub=np.array([1.])); s.pts=[]
    def obj(s,x): s.pts.append(('obj',x.copy())); return x.dot(x)
    def obj_grad(s,x): s.pts.append(('grad',x.copy())); return 2*x
    def cons(s,x): s.pts.append(('cons',x.copy())); return np.array([x[0]**2+x[1]])
    def cons_jac(s,x): s.pts.append(('jac',x.copy())); return sp.sparse.coo_matrix(np.array([[2*x[0],1.]]))
    def lag_hess(s,x,y): s.pts.append(('hess',x.copy())); return sp.sparse.coo_matrix(np.diag([2+2*y[0],2.]))
print('--- F12: Globalized Newton evaluates outside the box?')
p=NL(0.9,1.2)
try: r=Solver(p, Params(newton_type=NewtonType.Globalized, iteration_limit=50)).solve(np.array([1.,1.]), np.zeros(1)); print(r.status)
except Exception as e: print('EXC', e)
out=[(k,x) for k,x in p.pts if (x<p.var_lb-0).any() or (x>p.var_ub+0).any()]
print('evaluations', len(p.pts), 'outside box', len(out), out[:2])
print('--- F12 control: Simplified')
p=NL(0.9,1.2); r=Solver(p, Params(iteration_limit=50)).solve(np.array([1.,1.]), np.zeros(1))
print('evaluations', len(p.pts), 'outside box', len([1 for k,x in p.pts if (x<p.var_lb).any() or (x>p.var_ub).any()]))
print('--- F10: non-finite Hessian at x0')
class BadH(NL):
    def lag_hess(s,x,y): return sp.sparse.coo_matrix(np.diag([np.nan,2.]))
try: Solver(BadH(), Params(iteration_limit=5)).solve(np.array([1.,1.]), np.zeros(1)); print('no exception')
except Exception as e: print(type(e).__name__, '|', e, '| cause', type(e.__cause__).__name__)
class BadG(NL):
    def obj_grad(s,x): return np.array([np.nan,1.])
try: Solver(BadG(), Params(iteration_limit=5)).solve(np.array([1.,1.]), np.zeros(1)); print('no exception')
except Exception as e: print(type(e).__name__, '|', e, '| cause', type(e.__cause__).__name__)
print('--- F7: callbacks vs veto under ObjectiveFilter')
p=NL(); s=Solver(p, Params(penalty_update=PenaltyUpdate.ObjectiveFilter, iteration_limit=60)); log=[]
s.callbacks.register(CallbackType.ComputedStep, lambda it,nx,acc: log.append((it.x.copy(), nx.x.copy(), acc)))
r=s.solve(np.array([1.,1.]), np.zeros(1))
acc_cb=sum(1 for l in log if l[2]); print(r.status, 'iterations', r.iterations, 'callbacks', len(log), 'accept=True callbacks', acc_cb, 'num_accepted_steps', r.num_accepted_steps)
broken=[i for i in range(len(log)-1) if log[i][2] and not np.array_equal(log[i+1][0], log[i][1])]
print('announced-accepted steps whose successor does not start from them:', len(broken))
print('--- F7 search')
rng=np.random.default_rng(0); found=0
for trial in range(60):
    for pol in (PenaltyUpdate.ObjectiveFilter, PenaltyUpdate.LagrangianFilter):
        p=NL(); s=Solver(p, Params(penalty_update=pol, iteration_limit=40, rho=float(10**rng.uniform(-8,0)))); log=[]
        s.callbacks.register(CallbackType.ComputedStep, lambda it,nx,acc: log.append((it.x.copy(), it.y.copy(), nx.x.copy(), nx.y.copy(), acc)))
        x0=rng.uniform(-4,4,2); y0=rng.uniform(-3,3,1)
        try: r=s.solve(x0,y0)
        except Exception as e: continue
        broken=[i for i in range(len(log)-1) if log[i][4] and not (np.array_equal(log[i+1][0], log[i][2]) and np.array_equal(log[i+1][1], log[i][3]))]
        acc_cb=sum(1 for l in log if l[4])
        if broken or acc_cb!=r.num_accepted_steps:
            found+=1
            if found<=2: print(pol.name, 'x0',x0,'y0',y0,'rho',s.params.rho, r.status,'iters',r.iterations,'accept=True callbacks',acc_cb,'num_accepted_steps',r.num_accepted_steps,'broken chain at',broken[:5])
print('instances with callback/veto mismatch:', found)
