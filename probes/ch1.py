from typing import List, Tuple
from pygradflow.penalty import ObjectivePenaltyFilter
class P: rho=1e-8
def _dom(x, y): return x[0] <= y[0] and x[1] <= y[1]
def check_filter(seq: List[Tuple[float, float]]) -> bool:
    """
    pre: len(seq) <= 3
    pre: all(a == a and b == b for (a, b) in seq)
    post: _
    """
    f = ObjectivePenaltyFilter(None, P())
    for (a, b) in seq:
        before = list(f.entries)
        ok = f.filter_insert(a, b)
        if ok != (not any(_dom(e, (a, b)) for e in before)):
            return False
        for i, x in enumerate(f.entries):
            for j, y in enumerate(f.entries):
                if i != j and _dom(x, y):
                    return False
    return True
