import z3, time, sys
n=int(sys.argv[1]); m=int(sys.argv[2]); fixed=len(sys.argv)>3
R=z3.Real
H0=[[R(f'h{min(i,j)}{max(i,j)}') for j in range(n)] for i in range(n)]
Hc=[[[R(f'k{a}_{min(i,j)}{max(i,j)}') for j in range(n)] for i in range(n)] for a in range(m)]
J=[[R(f'j{i}{k}') for k in range(n)] for i in range(m)]
y=[R(f'y{a}') for a in range(m)]; c=[R(f'c{a}') for a in range(m)]
lam,rho=R('lam'),R('rho'); rx=[R(f'rx{i}') for i in range(n)]; ry=[R(f'ry{i}') for i in range(m)]
sx=[R(f'sx{i}') for i in range(n)]; sy=[R(f'sy{i}') for i in range(m)]
def H(mult): return [[H0[i][j]+sum(mult[a]*Hc[a][i][j] for a in range(m)) for j in range(n)] for i in range(n)]
Href=H([y[a]+rho*c[a] for a in range(m)])
Hsc = Href if fixed else H(y)           # what ScaledStepSolver.update_derivs requests (rho=0.0)
s=z3.Solver(); s.add(lam>0,rho>0); fact=1/(1+lam*rho)
for i in range(n): s.add(sum(Hsc[i][k]*sx[k] for k in range(n)) + lam*sx[i] + sum(J[a][i]*sy[a] for a in range(m)) == rx[i])
for a in range(m): s.add(sum(J[a][k]*sx[k] for k in range(n)) - lam*fact*sy[a] == fact*ry[a])
dx=sx; dy=[fact*(sy[a]-rho*ry[a]) for a in range(m)]
Jdx=[sum(J[a][k]*dx[k] for k in range(n)) for a in range(m)]
ref=[sum(Href[i][k]*dx[k] for k in range(n)) + lam*dx[i] + rho*sum(J[a][i]*Jdx[a] for a in range(m)) + sum(J[a][i]*dy[a] for a in range(m)) == rx[i] for i in range(n)]
ref+=[Jdx[a] - lam*dy[a] == ry[a] for a in range(m)]
s.add(z3.Not(z3.And(ref))); s.set('timeout',120000); t=time.time(); r=s.check()
print(n,m,'multiplier fixed' if fixed else 'as in repo (rho=0.0)', r, round(time.time()-t,2))
if r==z3.sat:
    mm=s.model(); print('  c0 =',mm[c[0]],' k0_00 =',mm.eval(Hc[0][0][0]),' rho =',mm[rho])
