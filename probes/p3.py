import sys; sys.path.insert(0,'/tmp/probe'); sys.path.insert(0,'/repo')
import eng, z3, time
from eng import SR, Engine
from pygradflow.penalty import ObjectivePenaltyFilter
class P: rho=1e-8
class It:
    def __init__(s,o,v): s.obj=o; s.cons_violation=v
N=int(sys.argv[1])
def harness(E):
    f = ObjectivePenaltyFilter(None, P())
    rho0 = SR(z3.Real('rho0')); E.assume(rho0.e>0); f.rho = rho0
    ref=[]  # reference set model
    for k in range(N):
        a,b = SR(z3.Real(f'a{k}')), SR(z3.Real(f'b{k}'))
        before=list(f.entries); rho_b=f.rho
        res = f.update(None, It(a,b))
        dominated = z3.Or([z3.And(e[0].e<=a.e, e[1].e<=b.e) for e in before]) if before else z3.BoolVal(False)
        E.prove(dominated == z3.BoolVal(not res.accept), 'refused iff dominated')
        if res.accept:
            E.prove(f.rho.e == rho_b.e, 'rho unchanged'); 
            # survivors are exactly the non-dominated
            exp=[e for e in before]  # check each before-entry kept iff not dominated by new
            for e in before:
                kept = any(e is x for x in f.entries)
                E.prove(z3.And(a.e<=e[0].e, b.e<=e[1].e) == z3.BoolVal(not kept), 'removed iff dominated')
            assert f.entries[-1][0] is a
        else:
            E.prove(f.rho.e == 10*rho_b.e, 'rho x10'); assert len(f.entries)==len(before)
        # pairwise non-dominated
        for i,x in enumerate(f.entries):
            for j,y in enumerate(f.entries):
                if i!=j: E.prove(z3.Not(z3.And(x[0].e<=y[0].e, x[1].e<=y[1].e)), 'antichain')
E=Engine(); eng.ENG=E; t=time.time(); E.explore(harness)
print(N, E.stats, 'cex', len(E.cex), 'unk', len(E.unknown), 'wall', round(time.time()-t,2))
for c in E.cex[:2]: print(c)
