# L3 probe: real Standard/Symmetric/Extended step solvers + newton.py (Simplified) + ImplicitFunc on the sparse model;
# linear solver = exact-solve oracle (fresh s with M s = rhs assumed);  obligation = dense Newton equation (C14)
import sys; sys.path.insert(0,'/tmp/probe'); sys.path.insert(0,'/repo')
import eng, z3, time, symnp2, symsp_probe, builtins
from eng import SR, SB, Engine, Abort
from symnp2 import Arr
from symsp_probe import SpM
np_,sp_=symnp2.install(); symsp_probe.install(np_,sp_)
import pygradflow.linear_solver as LS
from pygradflow.problem import Problem
from pygradflow.params import Params, StepSolverType, NewtonType
from pygradflow.iterate import Iterate
from pygradflow.newton import newton_method
def symfloat(v=0.0): return v if isinstance(v,SR) else builtins.float(v)
for name,mod in list(sys.modules.items()):
    if name.startswith('pygradflow'): mod.__dict__['float']=symfloat
st=sys.argv[1]; n=int(sys.argv[2]); m=int(sys.argv[3]); fixed=('fixed' in sys.argv)
R=z3.Real
def sym(name): return SR(R(name))
H0=[[sym(f'h{min(i,j)}{max(i,j)}') for j in range(n)] for i in range(n)]
Hc=[[[sym(f'k{a}_{min(i,j)}{max(i,j)}') for j in range(n)] for i in range(n)] for a in range(m)]
Jm=[[sym(f'j{a}{k}') for k in range(n)] for a in range(m)]
class User(Problem):
    def __init__(s): super().__init__(Arr([sym(f'xl{i}') for i in range(n)]), Arr([sym(f'xu{i}') for i in range(n)]), num_cons=m)
    def obj(s,x): return sym('f')
    def obj_grad(s,x): return Arr([sym(f'g{i}') for i in range(n)])
    def cons(s,x): return Arr([sym(f'c{a}') for a in range(m)])
    def cons_jac(s,x): return SpM({(a,k):Jm[a][k] for a in range(m) for k in range(n)},(m,n))
    def lag_hess(s,x,y): return SpM({(i,j): H0[i][j]+sum((y.items[a]*Hc[a][i][j] for a in range(m)), 0.0) for i in range(n) for j in range(n)},(n,n))
def harness(E):
    for i in range(n): E.assume(R(f'xl{i}')<=R(f'xu{i}'))
    E.assume(z3.And(R('dt')>0, R('rho')>0))
    dt=sym('dt'); rho=sym('rho')
    rec={}
    class Exact:
        def __init__(s, mat, t, symmetric=False): s.mat=mat; rec['mat']=mat
        def solve(s, rhs, trans=False, initial_sol=None):
            N=s.mat.shape[0]; sol=[sym(f's{i}') for i in range(N)]
            for i in range(N):
                row=z3.RealVal(0)
                for (a,b),v in s.mat.ent.items():
                    if a==i: row = row + (v.e if isinstance(v,SR) else z3.RealVal(v))*sol[b].e
                r=rhs.items[i]; E.assume(row == (r.e if isinstance(r,SR) else z3.RealVal(r)))
            return Arr(sol)
    LS.linear_solver=lambda mat,t,symmetric=False: Exact(mat,t,symmetric)
    params=Params(step_solver_type=StepSolverType[st])
    u=User(); x=Arr([sym(f'x{i}') for i in range(n)]); y=Arr([sym(f'y{a}') for a in range(m)])
    it=Iterate(u,params,x,y)
    if fixed:   # model of the corrected code: Hessian requested at y + rho c
        import copy
        from pygradflow.step.solver.scaled_step_solver import ScaledStepSolver
        from pygradflow.step.solver.symmetric_step_solver import SymmetricStepSolver
        def upd(self, iterate):
            self._jac=copy.copy(iterate.aug_lag_deriv_xy()); self._hess=copy.copy(iterate.lag_hess(iterate.y+self.rho*iterate.cons)); self.reset_deriv()
        ScaledStepSolver.update_derivs=upd
        def upd2(self, iterate): upd(self, iterate); self._jac=self.jac.tocsc()
        SymmetricStepSolver.update_derivs=upd2
    import importlib; SSM=importlib.import_module('pygradflow.step.solver.step_solver')
    raw_dx={}
    orig_cx=SSM.StepResult._compute_xn
    def rec_cx(self, dx): raw_dx['dx']=dx; return orig_cx(self, dx)
    SSM.StepResult._compute_xn=rec_cx
    method=newton_method(u,params,it,dt,rho)
    step=method.step(it)
    act=step.active_set
    # dense reference Newton equation for the lambda-scaled residual, same active set (oracle written here, not from pygradflow)
    ex=lambda v: v.e if isinstance(v,SR) else z3.RealVal(v)
    lam=1/R('dt'); c=[R(f'c{a}') for a in range(m)]; g=[R(f'g{i}') for i in range(n)]
    xs=[R(f'x{i}') for i in range(n)]; ys=[R(f'y{a}') for a in range(m)]
    Hm=[[ex(H0[i][j])+sum(((ys[a]+R('rho')*c[a])*ex(Hc[a][i][j]) for a in range(m)), z3.RealVal(0)) for j in range(n)] for i in range(n)]
    J=[[ex(Jm[a][k]) for k in range(n)] for a in range(m)]
    grad=[g[i]+sum((J[a][i]*(R('rho')*c[a]+ys[a]) for a in range(m)), z3.RealVal(0)) for i in range(n)]
    # the linear solve happened before clipping: recover raw solution from the oracle record
    raw=[R(f's{i}') for i in range(rec['mat'].shape[0])]
    SSM.StepResult._compute_xn=orig_cx
    dx=[ex(v) for v in raw_dx['dx'].items]; dy=[ex(v) for v in step.dy.items]
    actb=[bool(a) for a in act.items]
    obl=[]
    for i in range(n):
        if actb[i]: continue   # active rows: identity rows, checked separately
        Fx = lam*xs[i] - (lam*xs[i] - grad[i])         # x0 == x here (first Newton step from the start point): F_x = grad
        lhs = lam*dx[i] + sum((Hm[i][k]*dx[k] for k in range(n)), z3.RealVal(0)) + R('rho')*sum((J[a][i]*sum((J[a][k]*dx[k] for k in range(n)), z3.RealVal(0)) for a in range(m)), z3.RealVal(0)) + sum((J[a][i]*dy[a] for a in range(m)), z3.RealVal(0))
        obl.append(lhs == Fx)
    for a in range(m):
        obl.append(sum((J[a][k]*dx[k] for k in range(n)), z3.RealVal(0)) - lam*dy[a] == c[a])
    # only meaningful if the unclipped step was not clipped: assume raw step stays in the box
    E.prove(z3.And(obl) if obl else z3.BoolVal(True), 'C14 dense Newton equation')
E=Engine(); E.fresh_nra=True; E.tactic=('tactic' in sys.argv); E.solver.set('timeout',60000); eng.ENG=E; t=time.time()
try: E.explore(harness)
except Exception:
    import traceback; traceback.print_exc()
print(st,n,m,'fixed' if fixed else 'repo',E.stats,'unk',len(E.unknown),'cex',len(E.cex),'wall',round(time.time()-t,2))
