import z3, time
class Abort(BaseException): pass
class Engine:
    def __init__(s):
        s.solver = z3.Solver(); s.solver.set('timeout',3000); s.stats=dict(paths=0, queries=0, t=0.0)
    def check(s, *extra):
        t=time.time(); s.stats['queries']+=1
        r = s.solver.check(*extra); dt=time.time()-t; s.stats['t']+=dt
        if r==z3.unknown: s.stats['unknown_q']=s.stats.get('unknown_q',0)+1; print('UNKNOWN query', [str(e)[:150] for e in extra])
        return r
    def branch(s, cond):
        cond = z3.simplify(cond)
        if z3.is_true(cond): return True
        if z3.is_false(cond): return False
        i = len(s.trace)
        if i < len(s.prefix):
            d = s.prefix[i]
        else:
            can_t = s.check(cond) == z3.sat
            can_f = s.check(z3.Not(cond)) == z3.sat
            if can_t and can_f:
                d = True; s.todo.append(s.trace + [False])
            elif can_t: d = True
            elif can_f: d = False
            else:
                print('both-infeasible/unknown at branch', str(cond)[:200]); raise Abort()
        s.trace.append(d)
        s.solver.add(cond if d else z3.Not(cond))
        return d
    def assume(s, cond):
        s.solver.add(cond)
    def prove(s, cond, what=''):
        s.stats['obl'] = s.stats.get('obl',0)+1
        if getattr(s,'fresh_nra',False):
            t0=time.time(); f=z3.Then('simplify','solve-eqs','qfnra-nlsat').solver() if getattr(s,'tactic',False) else z3.Solver(); f.set('timeout',120000)
            f.add(*s.solver.assertions()); f.add(z3.Not(cond)); r=f.check(); s.stats['queries']+=1; s.stats['t']+=time.time()-t0
            if r==z3.sat: s.cex.append((what, f.model(), list(s.trace))); return
            if r!=z3.unsat: s.unknown.append(what); print('UNKNOWN (fresh)', what)
            return
        r = s.check(z3.Not(cond))
        if r == z3.sat:
            s.cex.append((what, s.solver.model(), list(s.trace)))
        elif r != z3.unsat:
            s.unknown.append(what)
    def explore(s, harness):
        s.todo=[[]]; s.cex=[]; s.unknown=[]
        while s.todo:
            s.prefix = s.todo.pop(); s.trace=[]
            s.solver.push()
            try:
                harness(s); s.stats['paths']+=1
            except Abort: pass
            finally: s.solver.pop()
        return s
ENG=None
class SR:  # symbolic real
    def __init__(s, e): s.e = e if isinstance(e, z3.ExprRef) else z3.RealVal(e)
    def _o(a,b):
        if isinstance(b,SR): return b.e
        return z3.RealVal(b)
    def __add__(a,b):
        if not isinstance(b,(SR,int,float)): return NotImplemented
        return SR(a.e + a._o(b))
    __radd__=__add__
    def __sub__(a,b):
        if not isinstance(b,(SR,int,float)): return NotImplemented
        return SR(a.e - a._o(b))
    def __rsub__(a,b): return SR(a._o(b) - a.e)
    def __mul__(a,b):
        if not isinstance(b,(SR,int,float)): return NotImplemented
        return SR(a.e * a._o(b))
    __rmul__=__mul__
    def __truediv__(a,b):
        if not isinstance(b,(SR,int,float)): return NotImplemented
        return SR(a.e / a._o(b))
    def __rtruediv__(a,b):
        if getattr(a,'recip',None) is not None and b==1.0: return a.recip
        return SR(a._o(b) / a.e)
    def __abs__(a): return SR(z3.If(a.e>=0,a.e,-a.e))
    def __neg__(a): return SR(-a.e)
    def _inf(a,b,lt):   # finite symbolic vs concrete +-inf
        if isinstance(b,float) and b in (float('inf'),-float('inf')): return (b>0)==lt
        return None
    def __le__(a,b): return a._inf(b,True) if a._inf(b,True) is not None else SB(a.e <= a._o(b))
    def __lt__(a,b): return a._inf(b,True) if a._inf(b,True) is not None else SB(a.e < a._o(b))
    def __ge__(a,b): return a._inf(b,False) if a._inf(b,False) is not None else SB(a.e >= a._o(b))
    def __gt__(a,b): return a._inf(b,False) if a._inf(b,False) is not None else SB(a.e > a._o(b))
    def __eq__(a,b):
        if isinstance(b,float) and b in (float('inf'),-float('inf')): return False
        return SB(a.e == a._o(b))
    def __ne__(a,b):
        if isinstance(b,float) and b in (float('inf'),-float('inf')): return True
        return SB(a.e != a._o(b))
    __hash__=None
class SB:
    def __init__(s,e): s.e=e
    def __bool__(s): return ENG.branch(s.e)
