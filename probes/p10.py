import z3
F64=z3.Float64(); RNE=z3.RNE(); x=z3.FP('x',F64)
for k in (-7,-1,-2):
    s=z3.Solver(); c=z3.FPVal(2.0**k,F64); ci=z3.FPVal(2.0**-k,F64); y=z3.fpMul(RNE,x,c)
    s.add(z3.fpIsNormal(x), z3.fpIsNormal(y)); s.add(z3.Not(z3.fpEQ(z3.fpMul(RNE,y,ci),x)))
    r=s.check(); print(k, r, c, ci)
    if r==z3.sat:
        m=s.model(); print(m[x], m.eval(y), m.eval(z3.fpMul(RNE,y,ci)), m.eval(z3.fpIsInf(z3.fpMul(RNE,y,ci))))
