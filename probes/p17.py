# C20 probe: real Scaling.weights_from_nominal_values / from_grad_jac on an exponent model of frexp/ldexp,
# including the int-dtype accumulator truncation the code performs
import sys; sys.path.insert(0,'/tmp/probe'); sys.path.insert(0,'/repo')
import eng, z3, time, symnp2, symsp_probe, builtins
from eng import SR, SB, Engine
from symnp2 import Arr
from symsp_probe import SpM
np_,sp_=symnp2.install(); symsp_probe.install(np_,sp_)
EW=12
class SI(SR):   # symbolic integer carried as a Real-sorted term that is known integral
    pass
def pow2(e):    # e: z3 real-sorted integral term or python int
    if isinstance(e,int): return z3.Q(2**e,1) if e>=0 else z3.Q(1,2**-e)
    r=z3.RealVal(0)
    for k in range(-3*EW,3*EW+1): r=z3.If(e==k, z3.Q(2**k,1) if k>=0 else z3.Q(1,2**-k), r)
    return r
def expo(v):    # frexp exponent of a real term: unique e with 2^(e-1) <= |v| < 2^e, 0 at 0
    a=z3.If(v>=0,v,-v); r=z3.RealVal(0)
    eng.ENG.assume(z3.Or(a==0, z3.And(a>=pow2(-EW-1), a<pow2(EW))))   # window assumption (reported bound)
    for k in range(-EW,EW+1): r=z3.If(z3.And(a>=pow2(k-1), a<pow2(k)), z3.RealVal(k), r)
    return r
def frexp(x):
    if isinstance(x,Arr):
        es=[SI(expo(v.e if isinstance(v,SR) else z3.RealVal(v))) for v in x.items]
        return (Arr([None]*len(es)), IntArr(es))
    e=SI(expo(x.e if isinstance(x,SR) else z3.RealVal(x))); return (None,e)
class IntArr(Arr):
    def __init__(s, items): Arr.__init__(s, items, symnp2.int64)
    def __rsub__(a,b): return IntArr([SI((z3.RealVal(b) - x.e)) if isinstance(x,SR) else b-x for x in a.items])
    def __neg__(a): return IntArr([SI(-x.e) if isinstance(x,SR) else -x for x in a.items])
    def __getitem__(s,i):
        if isinstance(i,Arr): return IntArr([s.items[int(j)] for j in i.items])
        return s.items[i]
    def __setitem__(s,i,v):   # store into an integer-dtype array truncates toward zero (values here are >= 0)
        if isinstance(v,SR) and not isinstance(v,SI): v=SI(z3.ToReal(z3.ToInt(v.e)))
        s.items[i]=v
def ldexp(x,e):
    def one(v,k):
        ke = k.e if isinstance(k,SR) else int(k)
        return SR((v.e if isinstance(v,SR) else z3.RealVal(v))*pow2(ke))
    if isinstance(x,Arr):
        es=e.items if isinstance(e,Arr) else [e]*len(x.items)
        return Arr([one(v,k) for v,k in zip(x.items,es)])
    return one(x,e)
_z=symnp2.zeros
def zeros(shape,dtype=symnp2.float64):
    if dtype is int: return IntArr([0]*(shape[0] if isinstance(shape,tuple) else shape))
    return _z(shape,dtype)
np_.frexp=frexp; np_.ldexp=ldexp; np_.zeros=zeros
def symmax(a,b): return symnp2._max(a,b)
from pygradflow.scale import Scaling
import pygradflow.scale as SC
SC.__dict__['max']=symmax
R=z3.Real
which=sys.argv[1]
def rng(E,v): E.assume(z3.And(v>=-z3.Q(2**10,1), v<=z3.Q(2**10,1), z3.Or(v==0, v>=z3.Q(1,2**10), v<=-z3.Q(1,2**10))))
def harness(E):
    if which=='nominal':
        vals=[R('v0'),R('v1')]; [rng(E,v) for v in vals]
        w=Scaling.weights_from_nominal_values(Arr([SR(v) for v in vals]))
        for v,wi in zip(vals,w.items):
            sc=z3.If(v>=0,v,-v)*pow2(wi.e); E.prove(z3.Implies(v!=0, z3.And(sc>=1, sc<2)), 'nominal value scaled into [1,2)')
    else:
        g=[R('g0'),R('g1')]; J=[[R('j00'),R('j01')]]
        for v in g+J[0]: rng(E,v)
        s=Scaling.from_grad_jac(Arr([SR(v) for v in g]), SpM({(0,0):SR(J[0][0]),(0,1):SR(J[0][1])},(1,2)))
        vw=[x.e for x in s.var_weights.items]; cw=s.cons_weights.items[0].e
        for i in range(2):
            sc=z3.If(g[i]>=0,g[i],-g[i])*pow2(-vw[i]); E.prove(z3.Implies(g[i]!=0, z3.And(sc>=1, sc<2)), 'gradient entry scaled into [1,2)')
        ab=lambda v: z3.If(v>=0,v,-v)
        e0=ab(J[0][0])*pow2(cw-vw[0]); e1=ab(J[0][1])*pow2(cw-vw[1]); mx=z3.If(e0>=e1,e0,e1)
        E.assume(z3.And(g[0]!=0,g[1]!=0))
        E.prove(z3.Implies(z3.Or(J[0][0]!=0,J[0][1]!=0), z3.And(mx>=1, mx<2)), 'largest entry of Jacobian row scaled into [1,2)')
E=Engine(); E.solver.set('timeout',60000); eng.ENG=E; t=time.time()
try: E.explore(harness)
except Exception:
    import traceback; traceback.print_exc()
print(which,E.stats,'unk',len(E.unknown),'wall',round(time.time()-t,2))
seen=set()
for what,m,tr in E.cex:
    if what in seen: continue
    seen.add(what); print('CEX',what,{str(d):m[d] for d in m.decls() if str(d) in ('g0','g1','j00','j01')})
