import z3, time, sys
n=int(sys.argv[1]); m=int(sys.argv[2]); bug=len(sys.argv)>3
R=z3.Real
H=[[R(f'h{min(i,j)}{max(i,j)}') for j in range(n)] for i in range(n)]
J=[[R(f'j{i}{k}') for k in range(n)] for i in range(m)]
lam,rho=R('lam'),R('rho'); rx=[R(f'rx{i}') for i in range(n)]; ry=[R(f'ry{i}') for i in range(m)]
sx=[R(f'sx{i}') for i in range(n)]; sy=[R(f'sy{i}') for i in range(m)]
s=z3.Solver(); s.add(lam>0,rho>0)
fact=1/(1+lam*rho)
if bug: fact = 1/(1+lam)   # mutant
# scaled system  (what the linear-solver stub is assumed to satisfy)
for i in range(n): s.add(sum(H[i][k]*sx[k] for k in range(n)) + lam*sx[i] + sum(J[a][i]*sy[a] for a in range(m)) == rx[i])
for a in range(m): s.add(sum(J[a][k]*sx[k] for k in range(n)) - lam*fact*sy[a] == fact*ry[a])
dx=sx; dy=[fact*(sy[a]-rho*ry[a]) for a in range(m)]
# reference Newton equation of the lambda-scaled residual
Jdx=[sum(J[a][k]*dx[k] for k in range(n)) for a in range(m)]
ref=[]
for i in range(n): ref.append(sum(H[i][k]*dx[k] for k in range(n)) + lam*dx[i] + rho*sum(J[a][i]*Jdx[a] for a in range(m)) + sum(J[a][i]*dy[a] for a in range(m)) == rx[i])
for a in range(m): ref.append(Jdx[a] - lam*dy[a] == ry[a])
s.add(z3.Not(z3.And(ref)))
s.set('timeout',120000); t=time.time(); r=s.check(); print(n,m,'bug' if bug else 'ok',r, round(time.time()-t,2))
if r==z3.sat: print(s.model())
