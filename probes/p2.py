import sys, types
class Rec(types.ModuleType):
    def __init__(s, name):
        super().__init__(name); s.__dict__['_used']=set(); s.__path__=[]
    def __getattr__(s, k):
        if k.startswith('__'): raise AttributeError(k)
        s._used.add(k)
        m = Rec(s.__name__+'.'+k); setattr(s,k,m); sys.modules[s.__name__+'.'+k]=m
        return m
    def __call__(s,*a,**k): return s
    def __mro_entries__(s,b): return (object,)
np = Rec('numpy'); sp = Rec('scipy')
sys.modules['numpy']=np; sys.modules['scipy']=sp
sys.path.insert(0,'/repo')
import importlib
mods = ['params','problem','util','eval','active_set','iterate','scale','cons_problem','transform','implicit_func','penalty','controller','timer','status','callbacks','result','display','step.step_control','step.solver.step_solver','step.solver.standard_step_solver','step.solver.scaled_step_solver','step.solver.extended_step_solver','step.solver.symmetric_step_solver','step.solver.asymmetric_step_solver','newton','step.newton_control','step.exact_control','step.distance_ratio_control','step.residuum_ratio_control','step.fixed_control','deriv_check','linear_solver','linear_solver.lu_solver','linear_solver.gmres_solver','linear_solver.minres_solver','step.cond_estimate','solver']
for m in mods:
    try:
        importlib.import_module('pygradflow.'+m); print('ok', m)
    except Exception as e:
        print('FAIL', m, type(e).__name__, e)
def walk(m, pre):
    for k in sorted(m._used):
        print(pre+k); walk(getattr(m,k), pre+k+'.')
walk(np,'np.'); walk(sp,'sp.')
