# throw-away shim v2 (design probe): 1-D arrays of python floats / SR / SB, enough for iterate.py, active_set.py,
# cons_problem.py, transform.py, penalty.py, solver.py, step_control.py.  Sparse: dense-backed COO only.
import sys, types, z3, eng, builtins
from eng import SR, SB
inf=float('inf'); newaxis=None
float64='f8'; float32='f4'; int64='i8'; int32='i4'; int16='i2'; int8='i1'; bool_=bool
class _Flags: writeable=True
def _sc(v): return v
def _and(a,b):
    if isinstance(a,SB) or isinstance(b,SB):
        ea = a.e if isinstance(a,SB) else z3.BoolVal(bool(a)); eb = b.e if isinstance(b,SB) else z3.BoolVal(bool(b)); return SB(z3.And(ea,eb))
    return bool(a) and bool(b)
def _or(a,b):
    if isinstance(a,SB) or isinstance(b,SB):
        ea = a.e if isinstance(a,SB) else z3.BoolVal(bool(a)); eb = b.e if isinstance(b,SB) else z3.BoolVal(bool(b)); return SB(z3.Or(ea,eb))
    return bool(a) or bool(b)
def _not(a): return SB(z3.Not(a.e)) if isinstance(a,SB) else (not a)
def _ite(c,a,b):
    if isinstance(c,SB) and (isinstance(a,SB) or isinstance(b,SB) or isinstance(a,bool)):
        ea = a.e if isinstance(a,SB) else z3.BoolVal(a); eb = b.e if isinstance(b,SB) else z3.BoolVal(b); return SB(z3.If(c.e,ea,eb))
    if isinstance(c,SB):
        A = a if isinstance(a,SR) else SR(a); B = b if isinstance(b,SR) else SR(b); return SR(z3.If(c.e,A.e,B.e))
    return a if c else b
def _max(a,b): return _ite(a>=b,a,b)
def _min(a,b): return _ite(a<=b,a,b)
def _abs(a): return _ite(a>=0,a,-a) if isinstance(a,SR) else builtins.abs(a)
class Arr:
    def __init__(s, items, dtype=float64): s.items=list(items); s.dtype=dtype; s.flags=_Flags()
    shape=property(lambda s:(len(s.items),)); ndim=1; size=property(lambda s:len(s.items))
    def __len__(s): return len(s.items)
    def __iter__(s): return iter(s.items)
    def copy(s): return Arr(s.items,s.dtype)
    def astype(s,dt,copy=True): return Arr(s.items,dt)
    def __getitem__(s,i):
        if isinstance(i,slice): return Arr(s.items[i], s.dtype)
        if isinstance(i,Arr):
            if i.dtype==bool_:
                if builtins.any(isinstance(m,SB) for m in i.items): return MaskedView(s.items, i.items, s.dtype)
                return Arr([v for v,m in zip(s.items,i.items) if _conc(m)], s.dtype)
            return Arr([s.items[j] for j in i.items], s.dtype)
        return s.items[i]
    def __setitem__(s,i,v):
        if isinstance(i,Arr) and i.dtype==bool_ and (isinstance(v,MaskedView) or builtins.any(isinstance(m,SB) for m in i.items)):
            vals = v.items if isinstance(v,(MaskedView,)) else [v]*len(s.items)
            assert not isinstance(v,Arr) or isinstance(v,MaskedView)
            for k,m in enumerate(i.items): s.items[k] = _ite(m, vals[k], s.items[k]) if isinstance(m,SB) else (vals[k] if m else s.items[k])
        elif isinstance(i,Arr) and i.dtype==bool_:
            vs = iter(v.items) if isinstance(v,Arr) else None
            for k,m in enumerate(i.items):
                if _conc(m): s.items[k] = next(vs) if vs else v
        else: s.items[i]=v
    def _bin(a,b,f,dt=None):
        bs = b.items if isinstance(b,Arr) else [b]*len(a.items)
        assert len(bs)==len(a.items); return Arr([f(x,y) for x,y in zip(a.items,bs)], dt or a.dtype)
    def __add__(a,b): return a._bin(b, lambda x,y:x+y)
    __radd__=__add__
    def __sub__(a,b): return a._bin(b, lambda x,y:x-y)
    def __rsub__(a,b): return a._bin(b, lambda x,y:y-x)
    def __mul__(a,b): return a._bin(b, lambda x,y:x*y)
    __rmul__=__mul__
    def __truediv__(a,b): return a._bin(b, lambda x,y:x/y)
    def __neg__(a): return Arr([-x for x in a.items], a.dtype)
    def __ne__(a,b): return a._bin(b, lambda x,y: (_not(x==y) if not isinstance(x,(SB,bool)) else _or(_and(x,_not(y)),_and(_not(x),y))), bool_)
    __hash__=None
    def __le__(a,b): return a._bin(b, lambda x,y:x<=y, bool_)
    def __lt__(a,b): return a._bin(b, lambda x,y:x<y, bool_)
    def __ge__(a,b): return a._bin(b, lambda x,y:x>=y, bool_)
    def __gt__(a,b): return a._bin(b, lambda x,y:x>y, bool_)
    def all(s):
        r=True
        for x in s.items: r=_and(r,x)
        return r if not isinstance(r,SB) else bool(r)
    def any(s):
        r=False
        for x in s.items: r=_or(r,x)
        return r if not isinstance(r,SB) else bool(r)
    def dot(a,b): return dot(a,b)
    def sum(s):
        r=0
        for x in s.items: r = r + (_ite(x,1.0,0.0) if isinstance(x,(SB,bool)) else x)
        return r
class MaskedView(Arr):
    '''x[mask] with a symbolic mask: full-length items + mask; only element-wise use is supported'''
    def __init__(s, items, mask, dtype=float64): Arr.__init__(s, items, dtype); s.mask=list(mask)
    def _bin(a,b,f,dt=None):
        bs = b.items if isinstance(b,Arr) else [b]*len(a.items)
        return MaskedView([f(x,y) for x,y in zip(a.items,bs)], a.mask, dt or a.dtype)
    shape=property(lambda s: (_ for _ in ()).throw(NotImplementedError('length of symbolic selection')))
    def all(s):
        r=True
        for x,m in zip(s.items,s.mask): r=_and(r,_or(_not(m),x))
        return r if not isinstance(r,SB) else bool(r)
    def any(s):
        r=False
        for x,m in zip(s.items,s.mask): r=_or(r,_and(m,x))
        return r if not isinstance(r,SB) else bool(r)
def _conc(m): return bool(m)      # masks are concretised by forking (probe only)
ndarray=Arr
def copy(a): return a.copy()
def zeros(shape, dtype=float64):
    n = shape[0] if isinstance(shape,tuple) else shape
    return Arr([0.0]*n, dtype)
def zeros_like(a): return Arr([0.0]*len(a), a.dtype)
def empty_like(a): return zeros_like(a)
def array(x, dtype=float64): return Arr(x, int64 if dtype is int else dtype)
def arange(n): return Arr(list(range(n)), int64)
def concatenate(xs):
    r=[]; [r.extend(a.items) for a in xs]; return Arr(r)
def broadcast_to(x, shape): return x if isinstance(x,Arr) else Arr([x]*shape[0])
class SumSq(SR):
    """sum of squares kept symbolic-structurally so sqrt() stays linear"""
    def __init__(s, items): s.items=list(items); SR.__init__(s, z3.RealVal(0))
    def __add__(a,b):
        if isinstance(b,SumSq): return SumSq(a.items+b.items)
        if isinstance(b,(int,float)) and b==0: return a
        raise NotImplementedError('SumSq + general')
    __radd__=__add__
def dot(a,b):
    if a is b or (len(a.items)==len(b.items) and builtins.all(x is y for x,y in zip(a.items,b.items))):
        if builtins.any(isinstance(x,SR) for x in a.items): return SumSq(a.items)
    r=0.0
    for x,y in zip(a.items,b.items): r = r + x*y
    return r
def maximum(a,b): return a._bin(b,_max) if isinstance(a,Arr) else _max(a,b)
def minimum(a,b): return a._bin(b,_min) if isinstance(a,Arr) else _min(a,b)
def absolute(a): return Arr([_abs(x) for x in a.items]) if isinstance(a,Arr) else _abs(a)
abs=absolute
def logical_and(a,b): return a._bin(b,_and,bool_)
def logical_or(a,b): return a._bin(b,_or,bool_)
def logical_not(a): return Arr([_not(x) for x in a.items], bool_)
def clip(x,lo,hi,out=None):
    if isinstance(x,Arr):
        r = Arr([_min(_max(v,l),h) for v,l,h in zip(x.items, lo.items, hi.items)])
        if isinstance(x,MaskedView): r = MaskedView(r.items, x.mask)
        if out is not None: out.items[:] = r.items; return out
        return r
    return _min(_max(x,lo),hi)
def all(a): return a.all()
_fresh=[0]
def sqrt(v):
    if not isinstance(v,SR): return v**0.5
    if isinstance(v,SumSq):
        ab=[_abs(x) for x in v.items]
        if len(ab)==0: return 0.0
        if len(ab)==1: return ab[0]
        _fresh[0]+=1; r=z3.Real(f'norm!{_fresh[0]}'); tot=ab[0]
        for x in ab[1:]: tot=tot+x
        eng.ENG.assume(z3.And(*[r>=(x.e if isinstance(x,SR) else x) for x in ab], r<=(tot.e if isinstance(tot,SR) else tot))); return SR(r)
    _fresh[0]+=1; r=z3.Real(f'sqrt!{_fresh[0]}'); eng.ENG.assume(z3.And(r>=0, r*r==v.e)); return SR(r)
class _linalg:
    @staticmethod
    def norm(a, ord=None):
        if ord==inf:
            r=0.0
            for x in a.items: r=_max(r,_abs(x))
            return r
        return sqrt(dot(a,a))
linalg=_linalg
def isclose(a,b,rtol=1e-5,atol=1e-8): return _abs(a-b) <= atol + rtol*_abs(b)
class Arr2:
    def __init__(s, rows): s.rows=[list(r) for r in rows]; s.ndim=2
    shape=property(lambda s:(len(s.rows), len(s.rows[0]) if s.rows else 0))
    T=property(lambda s: Arr2([[s.rows[i][j] for i in range(len(s.rows))] for j in range(len(s.rows[0]))]))
def vstack(xs): return Arr2([a.items for a in xs])
def hstack(xs): return Arr(list(xs))
def isfinite(a): return Arr([True]*len(a),bool_) if isinstance(a,Arr) else True
class Dense:   # dense-backed stand-in for every sparse format (probe only)
    def __init__(s, rows, shape=None): s.rows=rows; s.shape=shape or (len(rows), len(rows[0]) if rows else 0); s.dtype=float64
    @property
    def T(s): return Dense([[s.rows[i][j] for i in range(s.shape[0])] for j in range(s.shape[1])], (s.shape[1],s.shape[0]))
    def dot(s,v): return Arr([dot(Arr(r),v) for r in s.rows])
    @property
    def data(s): return Arr([v for r in s.rows for v in r])
    nnz=0
    def astype(s,dt): return s
def install():
    np = types.ModuleType('numpy'); np.__dict__.update({k:v for k,v in globals().items() if not k.startswith('_')})
    sp = types.ModuleType('scipy'); sp.sparse = types.ModuleType('scipy.sparse'); sp.sparse.spmatrix=object
    sp.sparse.csr_matrix=lambda shape,dtype=None: Dense([[] for _ in range(shape[0])], shape)
    sys.modules.update({'numpy':np,'scipy':sp,'scipy.sparse':sp.sparse}); return np, sp
