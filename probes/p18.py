import sys; sys.path.insert(0,'/tmp/probe'); sys.path.insert(0,'/repo')
import eng, z3, time, symnp2
from eng import SR, SB, Engine, Abort
SR.__format__ = lambda s,spec: '<sym>'
from symnp2 import Arr, Dense
symnp2.install()
import pygradflow.timer as T
import pygradflow.solver as S                      # real source against the shim
from pygradflow.problem import Problem
from pygradflow.params import Params, PenaltyUpdate
from pygradflow.iterate import Iterate
from pygradflow.status import SolverStatus
from pygradflow.step.step_control import StepControlResult
from pygradflow.callbacks import CallbackType
K=int(sys.argv[1]); M=int(sys.argv[2]); pol=sys.argv[3] if len(sys.argv)>3 else 'DualNorm'
R=z3.Real
f=z3.Function('f',z3.RealSort(),z3.RealSort()); g=z3.Function('g',z3.RealSort(),z3.RealSort())
c=z3.Function('c',z3.RealSort(),z3.RealSort()); j=z3.Function('j',z3.RealSort(),z3.RealSort())
class User(Problem):
    def __init__(s):
        kw = dict(cons_lb=Arr([0.0]), cons_ub=Arr([0.0])) if M else {}
        super().__init__(Arr([SR(R('xl'))]), Arr([SR(R('xu'))]), **kw)
    def obj(s,x): return SR(f(x[0].e))
    def obj_grad(s,x): return Arr([SR(g(x[0].e))])
    def cons(s,x): return Arr([SR(c(x[0].e))])
    def cons_jac(s,x): return Dense([[SR(j(x[0].e))]])
    def lag_hess(s,x,y): return Dense([[0.0]])
class Clock:
    def __init__(s,E): s.E=E; s.n=0; s.last=None; s.reads=[]
    def time(s):
        t=R(f't{s.n}'); s.n+=1
        if s.last is not None: s.E.assume(t>=s.last)
        s.last=t; s.reads.append(t); return SR(t)
S.print_problem_stats = lambda *a: None
import builtins
def symfloat(v=0.0): return v if isinstance(v,SR) else builtins.float(v)
for name,mod in list(sys.modules.items()):
    if name.startswith('pygradflow'): mod.__dict__['float']=symfloat
import pygradflow.eval as EV, math as _m, types
EV.math = types.SimpleNamespace(isfinite=lambda v: True if isinstance(v,SR) else _m.isfinite(v))
NX=z3.Function('NX',z3.RealSort(),z3.RealSort(),z3.RealSort(),z3.RealSort())
LM=z3.Function('LM',z3.RealSort(),z3.RealSort(),z3.RealSort(),z3.RealSort())
DT=z3.Function('DT',z3.RealSort(),z3.RealSort(),z3.RealSort(),z3.RealSort())
AC=z3.Function('AC',z3.RealSort(),z3.RealSort(),z3.RealSort(),z3.BoolSort())
def ex(v): return v.e if isinstance(v,SR) else z3.RealVal(v)
def run(E, limit_term, tag):
    clock=Clock(E); T.time=clock; E.assume(R('tl')>0)
    _t=clock.time
    def nolimit():
        v=_t(); E.assume(v.e - clock.reads[0] < R('tl')); return v
    clock.time=nolimit
    params = Params(penalty_update=PenaltyUpdate[pol], time_limit=SR(R('tl')), display_interval=SR(R('disp'+tag)))
    E.assume(R('disp'+tag)>=0)
    params.iteration_limit = SR(limit_term)
    u=User(); solver=S.Solver(u, params); trials=[]
    def oracle(controller, iterate, rho, dt, display, timer):
        if len(trials)>=K: raise Abort()
        a=(ex(iterate.x[0]), ex(rho), ex(dt))
        x=SR(NX(*a)); E.assume(z3.And(R('xl')<=x.e, x.e<=R('xu')))
        lam=SR(LM(*a)); E.assume(lam.e>0); lam.recip=SR(DT(*a)); E.assume(lam.recip.e>0)
        accb=bool(SB(AC(*a)))
        nxt=Iterate(solver.problem, params, Arr([x]), Arr([]), iterate.eval)
        trials.append(dict(x=ex(iterate.x[0]), rho=ex(rho), dt=ex(dt), acc=accb)); return StepControlResult(nxt, lam, None, None, accb)
    solver._compute_step=oracle
    res=solver.solve(Arr([SR(R('x0'))]), None)
    return res, trials
def harness(E):
    E.assume(z3.And(R('xl')<=R('xu'), R('xl')<=R('x0'), R('x0')<=R('xu')))
    k=z3.Int('k'); E.assume(z3.And(k>=0,k<=K))
    try: resA,trA = run(E, z3.RealVal(K), 'A')
    except Exception as e:
        if 'Inverse step size' in str(e): return
        raise
    try: resB,trB = run(E, z3.ToReal(k), 'B')
    except Exception as e:
        if 'Inverse step size' in str(e):
            E.prove(z3.BoolVal(False), 'C08 limited run aborts where the reference run did not (within k steps)'); return
        raise
    # B's trial sequence is a prefix of A's, term by term
    E.prove(z3.BoolVal(len(trB)<=len(trA)), 'C08 B no longer than A')
    for a,b in zip(trA,trB):
        E.prove(z3.And(a['x']==b['x'], a['rho']==b['rho'], a['dt']==b['dt']), 'C08 same trial inputs')
    # B's result is A's state after len(trB) trials
    xa=R('x0')
    for t in trA[:len(trB)]:
        if t['acc']: xa=NX(t['x'],t['rho'],t['dt'])
    E.prove(ex(resB.x[0])==xa, 'C08 result is the reference state at the stop')
print_once={}
E=Engine(); eng.ENG=E; t=time.time()
try: E.explore(harness)
except Exception as e:
    import traceback; traceback.print_exc()
print('K',K,'M',M,pol,E.stats,'unk',len(E.unknown),'wall',round(time.time()-t,2))
seen=set()
for what,m,tr in E.cex:
    if what in seen: continue
    seen.add(what); print('CEX',what)
