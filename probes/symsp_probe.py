# throw-away sparse model for the L3 probe: dict-backed matrices, structure concrete, values symbolic
import builtins, z3, eng, symnp2
from eng import SR, SB
from symnp2 import Arr, MaskedView
def _isz(v): return isinstance(v,(int,float)) and v==0
class SpM:
    def __init__(s, ent, shape, fmt='coo', dtype=None): s.ent=dict(ent); s.shape=tuple(shape); s.format=fmt; s.dtype=dtype or symnp2.float64
    nnz=property(lambda s: len(s.ent))
    def _new(s, ent, shape=None, fmt=None): return SpM(ent, shape or s.shape, fmt or s.format, s.dtype)
    def tocoo(s, copy=False): return s._new(s.ent, fmt='coo')
    def tocsr(s, copy=False): return s._new(s.ent, fmt='csr')
    def tocsc(s, copy=False): return s._new(s.ent, fmt='csc')
    def __copy__(s): return s._new(s.ent)
    def astype(s, dt): return s._new(s.ent)
    @property
    def T(s): return SpM({(j,i):v for (i,j),v in s.ent.items()}, (s.shape[1],s.shape[0]), s.format, s.dtype)
    def _keys(s): return sorted(s.ent)
    row=property(lambda s: Arr([i for i,j in s._keys()], symnp2.int64)); col=property(lambda s: Arr([j for i,j in s._keys()], symnp2.int64))
    data=property(lambda s: Arr([s.ent[k] for k in s._keys()]))
    def toarray(s): return [[s.ent.get((i,j),0.0) for j in range(s.shape[1])] for i in range(s.shape[0])]
    def __add__(a,b):
        assert a.shape==b.shape; e=dict(a.ent)
        for k,v in b.ent.items(): e[k]=e[k]+v if k in e else v
        return a._new(e)
    __iadd__=__add__
    def __neg__(a): return a._new({k:-v for k,v in a.ent.items()})
    def __mul__(a,c): return a._new({k:v*c for k,v in a.ent.items()})
    __rmul__=__mul__
    def dot(a,b):
        if isinstance(b,SpM):
            e={}
            for (i,k),v in a.ent.items():
                for (k2,j),w in b.ent.items():
                    if k==k2: e[(i,j)] = e[(i,j)]+v*w if (i,j) in e else v*w
            return SpM(e,(a.shape[0],b.shape[1]),a.format,a.dtype)
        out=[0.0]*a.shape[0]
        for (i,j),v in a.ent.items(): out[i]=out[i]+v*b.items[j]
        return Arr(out)
    __matmul__=dot
    def __getitem__(s, idx):
        r,c=idx
        rows = list(range(s.shape[0])) if isinstance(r,slice) else [int(x) for x in r.items]
        cols = list(range(s.shape[1])) if isinstance(c,slice) else [int(x) for x in c.items]
        e={}
        for a,i in enumerate(rows):
            for b,j in enumerate(cols):
                if (i,j) in s.ent: e[(a,b)]=s.ent[(i,j)]
        return SpM(e,(len(rows),len(cols)),s.format,s.dtype)
def coo_matrix(arg, shape=None, dtype=None):
    data,(rows,cols)=arg
    def conc(a):   # a data-dependent selection reaches a constructor: concretise the mask by forking
        if isinstance(a,MaskedView): return [v for v,m in zip(a.items,a.mask) if bool(m)]
        return list(a.items) if isinstance(a,Arr) else list(a)
    d,r,c=conc(data),conc(rows),conc(cols); e={}
    for v,i,j in zip(d,r,c): e[(int(i),int(j))] = e[(int(i),int(j))]+v if (int(i),int(j)) in e else v
    return SpM(e, shape, 'coo')
def eye(n, dtype=None): return SpM({(i,i):1.0 for i in range(n)},(n,n),'dia',dtype)
def diags(vals, shape=None, dtype=None): return SpM({(i,i):vals[0] for i in range(shape[0])},shape,'dia',dtype)
def bmat(blocks, format=None):
    nbr=len(blocks); nbc=len(blocks[0]); hs=[None]*nbr; ws=[None]*nbc
    for a,br in enumerate(blocks):
        for b,blk in enumerate(br):
            if blk is not None: hs[a]=blk.shape[0]; ws[b]=blk.shape[1]
    e={}; r0=0
    for a,br in enumerate(blocks):
        c0=0
        for b,blk in enumerate(br):
            if blk is not None:
                for (i,j),v in blk.ent.items(): e[(i+r0,j+c0)]=v
            c0+=ws[b]
        r0+=hs[a]
    return SpM(e,(sum(hs),sum(ws)),format or 'coo')
def where(mask):   # np.where(mask)[0]: data-dependent length -> fork per element
    return (Arr([i for i,m in enumerate(mask.items) if bool(m)], symnp2.int64),)
def install(np, sp):
    sp.sparse.coo_matrix=coo_matrix; sp.sparse.eye=eye; sp.sparse.diags=diags; sp.sparse.bmat=bmat
    np.where=where
    od=np.dot
    np.dot=lambda a,b: a.dot(b) if isinstance(a,SpM) else od(a,b)
    oa=symnp2.Arr.__getitem__; os_=symnp2.Arr.__setitem__
    def gi(s,i):
        if isinstance(i,Arr) and i.dtype==builtins.bool and isinstance(s,Arr) and not builtins.any(isinstance(m,SB) for m in i.items): return oa(s,i)
        return oa(s,i)
    def si(s,i,v):
        if isinstance(i,Arr) and i.dtype!=builtins.bool:
            for k,idx in enumerate(i.items): s.items[int(idx)] = v.items[k] if isinstance(v,Arr) else v
        else: os_(s,i,v)
    symnp2.Arr.__setitem__=si
