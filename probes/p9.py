import z3, time
F64=z3.Float64(); F32=z3.Float32(); RNE=z3.RNE()
def run(name, s, to=120):
    s.set('timeout', to*1000); t=time.time(); r=s.check(); print(f'{name}: {r} {time.time()-t:.2f}s'); return r
x,dx,lb,ub=z3.FPs('x dx lb ub',F64)
def clip(x,dx,lb,ub):
    xn=z3.fpSub(RNE,x,dx); xn=z3.If(z3.fpLT(xn,lb),lb,xn); xn=z3.If(z3.fpGT(xn,ub),ub,xn); return xn
pre=[z3.Not(z3.fpIsNaN(v)) for v in (x,dx,lb,ub)]+[z3.fpLEQ(lb,x),z3.fpLEQ(x,ub),z3.Not(z3.fpIsInf(x))]
s=z3.Solver(); s.add(pre); xn=clip(x,dx,lb,ub); s.add(z3.Not(z3.And(z3.fpLEQ(lb,xn),z3.fpLEQ(xn,ub)))); run('C05 clip f64 stays in box (expect unsat)',s)
s=z3.Solver(); s.add(pre); s.add(z3.Not(z3.fpIsInf(dx))); xn=clip(x,dx,lb,ub); x32=z3.fpFPToFP(RNE,xn,F32); back=z3.fpFPToFP(RNE,x32,F64); s.add(z3.Not(z3.And(z3.fpLEQ(lb,back),z3.fpLEQ(back,ub))))
if run('C05 clip then astype(float32) stays in f64 box (expect sat)',s)==z3.sat:
    m=s.model(); print('   lb=',m[lb],'ub=',m[ub])
# pow2 scaling exactness: (x*2^k)*2^-k == x absent overflow/underflow
for k in (1,7,-7,60):
    s=z3.Solver(); c=z3.FPVal(2.0**k,F64); ci=z3.FPVal(2.0**-k,F64); y=z3.fpMul(RNE,x,c)
    s.add(z3.fpIsNormal(x), z3.fpIsNormal(y)); s.add(z3.Not(z3.fpEQ(z3.fpMul(RNE,y,ci),x))); run(f'C04 pow2 round trip k={k} f64 (expect unsat)',s)
