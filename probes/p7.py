import sys, logging; sys.path.insert(0,'/repo')
import numpy as np, scipy as sp
from pygradflow.problem import Problem
from pygradflow.params import *
from pygradflow.solver import Solver
import pygradflow.linear_solver as LS
from pygradflow.linear_solver import LinearSolverError
logging.getLogger('gradflow').setLevel(logging.CRITICAL)
class NL(Problem):
    # min x0^2 + x1^2 s.t. x0^2 + x1 = 1  (nonlinear equality, violated at start)
    def __init__(s): super().__init__(np.array([-500.,-500.]), np.array([500.,500.]), cons_lb=np.array([1.]), cons_ub=np.array([1.]))
    def obj(s,x): return x.dot(x)
    def obj_grad(s,x): return 2*x
    def cons(s,x): return np.array([x[0]**2+x[1]])
    def cons_jac(s,x): return sp.sparse.coo_matrix(np.array([[2*x[0],1.]]))
    def lag_hess(s,x,y): return sp.sparse.coo_matrix(np.diag([2+2*y[0],2.]))
print('--- C07: first factorisation fails, per step solver')
orig = LS.linear_solver
for st in StepSolverType:
    cnt=[0]
    def failing(mat, t, symmetric=False):
        cnt[0]+=1
        if cnt[0]==3: raise LinearSolverError('injected')
        return orig(mat,t,symmetric=symmetric)
    LS.linear_solver = failing
    try:
        r=Solver(NL(), Params(step_solver_type=st, iteration_limit=500)).solve(np.array([1.,1.]), np.zeros(1)); print(st.name, r.status)
    except BaseException as e: print(st.name, 'ESCAPED', type(e).__name__, e)
LS.linear_solver = orig
print('--- C14: first Newton step per step solver vs dense reference')
from pygradflow.newton import newton_method
from pygradflow.iterate import Iterate
from pygradflow.implicit_func import ImplicitFunc
p=NL(); x=np.array([1.5,1.0]); y=np.array([0.7]); dt=0.5; rho=3.0
for st in StepSolverType:
    params=Params(step_solver_type=st)
    it=Iterate(p,params,x,y)
    f=ImplicitFunc(p,it,dt); A=f.deriv_at(it,rho).toarray(); b=f.value_at(it,rho); ref=np.linalg.solve(A,b)
    s=newton_method(p,params,it,dt,rho).step(it)
    print(st.name, 'err vs dense ref', np.linalg.norm(np.concatenate([s.dx,s.dy])-ref))
print('--- debug')
params=Params(step_solver_type=StepSolverType.Symmetric)
it=Iterate(p,params,x,y)
print('H(rho=0)', it.aug_lag_deriv_xx(0.0).toarray().tolist(), 'H(rho)', it.aug_lag_deriv_xx(rho).toarray().tolist(), 'c', it.cons)
m=newton_method(p,params,it,dt,rho); print(type(m.step_solver).__name__, m.step_solver._hess.toarray().tolist())
f=ImplicitFunc(p,it,dt); A=f.deriv_at(it,rho).toarray(); b=f.value_at(it,rho); ref=np.linalg.solve(A,b)
s=m.step(it); print('ref', ref, 'got', s.dx, s.dy)
# independent elimination with H(x,y) instead of H(x,y+rho c)
lam=1/dt; J=it.cons_jac.toarray(); H0=it.aug_lag_deriv_xx(0.0).toarray(); Hm=it.lag_hess(it.y+rho*it.cons).toarray()
for name,H in [('H(y)',H0),('H(y+rho c)',Hm)]:
    A2=np.block([[np.eye(2)+dt*(H+rho*J.T@J), dt*J.T],[-dt*J, np.eye(1)]]); print(name, np.linalg.solve(A2,b))
print('--- C14 with multiplier-corrected Hessian in scaled solvers')
import copy
from pygradflow.step.solver.scaled_step_solver import ScaledStepSolver
from pygradflow.step.solver.asymmetric_step_solver import AsymmetricStepSolver
def upd(self, iterate):
    self._jac = copy.copy(iterate.aug_lag_deriv_xy()); self._hess = copy.copy(iterate.lag_hess(iterate.y + self.rho*iterate.cons)); self.reset_deriv()
ScaledStepSolver.update_derivs = upd; AsymmetricStepSolver.update_derivs = upd
from pygradflow.step.solver.symmetric_step_solver import SymmetricStepSolver
def upd2(self, iterate):
    upd(self, iterate); self._jac = self.jac.tocsc()
SymmetricStepSolver.update_derivs = upd2
for st in StepSolverType:
    params=Params(step_solver_type=st); it=Iterate(p,params,x,y)
    f=ImplicitFunc(p,it,dt); A=f.deriv_at(it,rho).toarray(); b=f.value_at(it,rho); ref=np.linalg.solve(A,b)
    s=newton_method(p,params,it,dt,rho).step(it)
    print(st.name, 'err', np.linalg.norm(np.concatenate([s.dx,s.dy])-ref), ref, s.dx, s.dy)
