from typing import Tuple
from pygradflow.penalty import ObjectivePenaltyFilter
class P: rho=1e-8
def _dom(x, y): return x[0] <= y[0] and x[1] <= y[1]
def check_filter(a0: float, b0: float, a1: float, b1: float, a2: float, b2: float) -> bool:
    """
    pre: a0 == a0 and b0 == b0 and a1 == a1 and b1 == b1 and a2 == a2 and b2 == b2
    post: _
    """
    f = ObjectivePenaltyFilter(None, P())
    for (a, b) in [(a0,b0),(a1,b1),(a2,b2)]:
        before = list(f.entries)
        ok = f.filter_insert(a, b)
        if ok != (not any(_dom(e, (a, b)) for e in before)):
            return False
        for i, x in enumerate(f.entries):
            for j, y in enumerate(f.entries):
                if i != j and _dom(x, y):
                    return False
    return True
