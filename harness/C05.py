"""C05  User functions are only evaluated inside the variable bounds."""
from . import ctrl, defs, fpk, loop, steps, xform

OWNED = ["C05.", "C14.next_point_is_clipped_step", "C13.clipped_"]
REQUIRED = [
    "C05.evaluation_point_in_box", "C05.trial_iterate_in_box", "C05.start_iterate_in_internal_box", "C05.user_callbacks_see_points_inside_the_user_bounds", "C05.result_in_box", "C05.start_in_box",
    "C05.fp64.clipped_point_inside_bounds_exactly", "C05.fp64.clipped_point_not_nan", "C14.next_point_is_clipped_step", "C13.clipped_in_box", "C13.clipped_is_projection",
]
META = dict(
    functions_encoded=ctrl.FUNCTIONS + fpk.FUNCTIONS + ["(start) " + f for f in xform.FUNCTIONS[:4]] + ["(result) pygradflow/solver.py:Solver.solve"],
    stubs=ctrl.STUBS + ["FP kernel: x, dx, bounds are arbitrary IEEE-754 binary64 (binary32 for Precision.Single) values, dx not NaN"],
    assumptions=[
        "monitor part: exact real arithmetic, products uninterpreted and refined on counterexamples; the step solver is an arbitrary oracle behind the public Params.step_solver hook, so every real step solver is covered as far as its result goes through StepResult (the real step solvers do: L3 obligation C14.next_point_is_clipped_step)",
        "FP kernel: the clip itself is bit-exact in IEEE-754 (z3 QF_FP, all doubles incl. subnormals, signed zeros, infinite bounds)",
        "exempt as stated: the derivative check and the evaluation at the user-supplied scaling point",
    ],
    bounds=dict(quick="one compute_step from an arbitrary state: 4 controllers x Newton types incl. the Globalized line search (unwound 2), n=1, m<=1, <=3 Newton solves; start iterate n<=2, m<=1 with scaling W=2; K=2 loop for the returned x; FP kernel n<=2", thorough="more controller x Newton x constraint combinations, line search unwound 3, n<=2 FP kernel all bound kinds"),
    outside=["BoxReduced / Optimizing step control (need cyipopt, not installed)", "line-search iterations beyond the unwinding", "n>1 in the monitor"],
    explanation="Every argument of every user callback issued during a real compute_step (all controllers, all of newton.py) is proved to lie in the scaled box; start, trial and returned points likewise; the clip kernel is proved bit-exactly in floating point.",
)


def tasks(tier):
    q = tier == "quick"
    t = ctrl.ctrl_tasks(tier)
    # the Armijo line search at any Newton iteration: one Globalized step from an arbitrary in-box
    # Newton iterate, exact arithmetic (counterexamples replay)
    for sv, v, c in (("Standard", ["boxed"], []), ("Symmetric", ["lower"], [])) if q else (("Standard", ["boxed"], []), ("Symmetric", ["lower"], []), ("Standard", ["boxed"], ["eq0"]), ("Extended", ["upper"], [])):
        t.append(dict(module="steps", fn="h_globalized", shape=dict(vars=v, cons=c, solver=sv, max_linesearch=2 if q else 3), opts=dict(nra=True, timeout_ms=60000)))
    t += loop.loop_tasks([dict(policy="DualNorm", cons=["ge"]), dict(policy="ObjectiveFilter", cons=[])], 2 if q else 3)
    for v, c, W, f in [(["boxed", "lower"], ["ge"], 2, "coo"), (["upper", "fixed"], ["ranged"], 2, "csr"), (["boxed"], ["eqb"], 0, "csc")]:
        t.append(dict(module="xform", fn="h_transform", shape=dict(vars=v, cons=c, W=W, fmt=f), opts=dict(exp_window=(-7, 7))))
    o = dict(nra=True, timeout_ms=120000)
    for sv in steps.SOLVERS:
        t.append(dict(module="steps", fn="h_step", shape=dict(vars=["boxed"], cons=["eq0"], solver=sv), opts=o))
    # lemma used by the Armijo line search: Iterate.clipped() is the projection onto the box, for
    # arbitrary points (exact arithmetic, nlsat)
    for v, c, f in ((["boxed"], ["eq0"], "coo"), (["lower", "upper"], [], "csr")):
        t.append(dict(module="defs", fn="h_iterate", shape=dict(vars=v, cons=c, fmt=f), opts=dict(nra=True, norm_model="exact", timeout_ms=60000)))
    fo = dict(nra=True, timeout_ms=300000)
    kinds = [["boxed"], ["lower", "upper"]] if q else [["boxed"], ["lower", "upper"], ["boxed", "boxed"], ["free", "boxed"]]
    for k in kinds:
        t.append(dict(module="fpk", fn="h_clip", shape=dict(n=len(k), vars=k), opts=fo))
    t.append(dict(module="fpk", fn="h_clip", shape=dict(n=1, vars=["boxed"], single=True), opts=fo))
    return t
