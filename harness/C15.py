"""C15  Step-size control: rejected steps shrink the step and keep the point (L1 part; the
controllers themselves are checked at L2 in harness.ctrl once built)."""
from . import ctrl, loop

OWNED = ["C15.", "C05.trial_iterate_in_box"]  # "an accepted step never leaves the box"
REQUIRED = [
    "C15.dt_is_1_over_previous_lambda",
    "C15.no_trial_after_lamb_max",
    "C15.abort_only_at_lamb_max",
    "C15.iterate_kept_after_rejection",
    "C15.iterate_changes_only_to_accepted_candidate",
    "C15.first_dt_is_1_over_lamb_init",
    "C15.rejected_trial_increases_lambda",
    "C15.failure_doubles_lambda",
    "C15.exact_accepted_solves_implicit_euler_to_newton_tol",
    "C15.fixed_controller_keeps_lambda",
    "C15.lambda_stays_positive",
]
META = dict(
    functions_encoded=loop.FUNCTIONS + ctrl.FUNCTIONS,
    stubs=loop.STUBS + ctrl.STUBS,
    assumptions=loop.LOOP_ASSUMPTIONS,
    bounds=dict(quick="K=2 trial steps, n=1, m<=1, policies DualNorm/ObjectiveFilter/Constant", thorough="K=3 (4 without constraints), all six policies"),
    outside=["runs longer than K trial steps"],
    explanation="Loop level (L1): lambda hand-over between trials, abort at lamb_max, iterate kept unless accepted.  Controller level (L2): one real compute_step from an arbitrary state for each controller: rejected => lambda' > lambda, failure => 2*lambda and same iterate, Exact accepted => independent implicit-Euler residual <= newton_tol componentwise, accepted step inside the box.",
)


def tasks(tier):
    if tier == "quick":
        combos = [dict(policy=p, cons=c) for p in ("DualNorm", "ObjectiveFilter", "Constant") for c in ([], ["eq0"])]
        return loop.loop_tasks(combos, 2) + loop.loop_tasks([dict(policy=p, cons=[]) for p in ("DualNorm", "ObjectiveFilter")], 4) + loop.loop_tasks([dict(policy="DualNorm", cons=["eq0"], step_failures=True)], 2) + loop.loop_tasks([dict(policy="LagrangianFilter", cons=[], step_failures=True)], 3) + ctrl.ctrl_tasks(tier)
    combos = [dict(policy=p, cons=c) for p in loop.POLICIES for c in (["eq0"], ["ge"])]
    return ctrl.ctrl_tasks(tier) + loop.loop_tasks(combos, 3) + loop.loop_tasks([dict(policy=p, cons=[]) for p in ("DualNorm", "ObjectiveFilter")], 4) + loop.loop_tasks([dict(policy=p, cons=c, step_failures=True) for p in ("DualNorm", "LagrangianFilter", "Constant") for c in (["eq0"], [])], 3)
