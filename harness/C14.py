"""C14  All step-solver and linear-solver choices compute the same Newton step."""
from . import steps

OWNED = ["C14."]
REQUIRED = ["C14.step_solves_reference_newton_system", "C14.next_point_is_clipped_step", "C14.next_multiplier", "C14.simplified_step_uses_base_matrix_and_current_residual", "C14.newton_variants_same_first_system", "C14.qp_one_step_solves_implicit_euler", "C14.one_factorisation_one_solve", "C14.requested_active_set_is_used", "C14.consecutive_steps_solve_their_reference_systems"]
META = dict(
    functions_encoded=steps.FUNCTIONS,
    stubs=[
        "pygradflow.linear_solver.linear_solver := exact-solve oracle: solve(rhs) returns ANY s with M s = rhs (M^T if trans) for the matrix the real code assembled -- covers every exact linear solver",
        "user problem := fresh real symbols per distinct evaluation point, Lagrangian Hessian H0 + sum_i y_i H_i (multiplier-linear); QP harness: symbolic Q, q, A, b",
    ],
    assumptions=["exact real arithmetic (nlsat); the linear solver solves its system exactly (iterative solvers' tolerance: C17)", "base point inside the box, rho > 0, dt > 0", "sparse additions drop exact zeros as scipy does (explored by forking for the asymmetric formulation)"],
    bounds=dict(quick="n<=2, m<=1, all four step solvers, all variable kinds; second simplified step n=m=1; two consecutive steps of one ActiveSet / Full method object (active set free to change) n=m=1; n=17 / 24 with concrete diagonal Hessian and one concrete Jacobian row (symbolic point, multiplier, gradient, constraint value; free variables); Newton variants n<=2, with the default active set and with a caller-chosen symbolic tau; QP n=m=1", thorough="n<=2, m<=2 (Standard n=3); QP n=2"),
    outside=["n>2 (scaled formulations), m>2", "iterative linear solvers' tolerance", "floating-point rounding"],
    explanation="The step (dx before clipping, dy) returned by each real step solver is proved (nlsat, fresh solver) to satisfy the dense reference Newton system F'(z_hat) s = F(z) for the active set it used; Newton variants hand identical first systems to the linear solver; on symbolic QPs one step zeroes the residual.",
)


def tasks(tier):
    q = tier == "quick"
    o = dict(nra=True, timeout_ms=120000)
    of = dict(o, sparse_cancel="fork")
    t = []
    shapes = [(["boxed", "free"], ["eq0"]), (["lower"], ["eq0"]), (["upper"], [])]
    if not q:
        shapes += [(["boxed", "boxed"], ["eq0"]), (["fixed", "lower"], ["eq0"]), (["boxed"], ["eq0", "eq0"])]
    for sv in steps.SOLVERS:
        for v, c in shapes:
            if q and sv == "Asymmetric" and len(v) > 1:
                v, c = ["boxed"], ["eq0"]  # cancellation forking makes n=2 a thorough-tier shape
            t.append(dict(module="steps", fn="h_step", shape=dict(vars=v, cons=c, solver=sv, fmt="csr" if len(v) == 1 else "coo"), opts=of if sv == "Asymmetric" else o))
    if not q:
        t.append(dict(module="steps", fn="h_step", shape=dict(vars=["boxed", "free", "lower"], cons=["eq0"], solver="Standard"), opts=o))
    for sv in ("Standard", "Extended") if q else steps.SOLVERS:
        t.append(dict(module="steps", fn="h_second", shape=dict(vars=["boxed"], cons=["eq0"], solver=sv), opts=o))
    for sv in ("Standard", "Symmetric") if q else steps.SOLVERS:
        t.append(dict(module="steps", fn="h_variants", shape=dict(vars=["boxed"], cons=["eq0"], solver=sv), opts=o))
    t.append(dict(module="steps", fn="h_variants", shape=dict(vars=["boxed", "free"], cons=["eq0"], solver="Standard"), opts=o))
    for sv in ("Standard", "Symmetric") if q else steps.SOLVERS:
        t.append(dict(module="steps", fn="h_variants", shape=dict(vars=["boxed"], cons=["eq0"], solver=sv, tau=True), opts=o))
    t.append(dict(module="steps", fn="h_variants", shape=dict(vars=["lower", "upper"], cons=[], solver="Extended", tau=True), opts=o))
    # beyond toy sizes: 17 / 24 variables with concrete derivative matrices (linear arithmetic): row and
    # right-hand-side orderings, index arithmetic, sorts (numpy's default sort is unstable above 16 elements)
    for sv in steps.SOLVERS:
        for nn, nt in ((17, "Simplified"), (24, "Full")) if q else ((17, "Simplified"), (24, "Full"), (33, "ActiveSet")):
            t.append(dict(module="steps", fn="h_large", shape=dict(solver=sv, n=nn, newton=nt, fmt="coo" if nn == 17 else "csr"), opts=dict(timeout_ms=60000)))
    # two consecutive steps of one method object (the active set may change in between)
    seqs = [("Standard", "ActiveSet"), ("Symmetric", "ActiveSet"), ("Extended", "Full"), ("Standard", "Full"), ("Symmetric", "Full")] if q else [(sv, nt) for sv in steps.SOLVERS for nt in ("ActiveSet", "Full", "Simplified")]
    for sv, nt in seqs:
        t.append(dict(module="steps", fn="h_sequence", shape=dict(vars=["boxed"], cons=["eq0"], solver=sv, newton=nt), opts=dict(of if sv == "Asymmetric" else o, point_consistency=True)))
    for sv in ("Standard", "Asymmetric") if q else steps.SOLVERS:
        t.append(dict(module="steps", fn="h_qp", shape=dict(vars=["boxed"], m=1, solver=sv), opts=o))
    if not q:
        t.append(dict(module="steps", fn="h_qp", shape=dict(vars=["boxed", "free"], m=1, solver="Symmetric"), opts=o))
    return t
