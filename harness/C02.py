"""C02  Non-optimal terminal statuses are justified by the returned point (L1 loop harness)."""
from . import loop

OWNED = ["C02."]
REQUIRED = [
    "C02.iterations_le_limit",
    "C02.iteration_limit_iff_count_equals_limit",
    "C02.time_limit_only_after_deadline",
    "C02.locally_infeasible.violation_exceeds_tol",
    "C02.locally_infeasible.stationary_for_violation",
    "C02.unbounded.feasible",
    "C02.unbounded.objective_below_limit",
]
META = dict(
    functions_encoded=loop.FUNCTIONS,
    stubs=loop.STUBS,
    assumptions=loop.LOOP_ASSUMPTIONS,
    bounds=dict(
        quick="<= K=2 trial steps; n=1 (boxed/free/lower), m in {0,1} with equality / one-sided / ranged rows; symbolic iteration limit in [0,K] or None, time limit, clock readings, opt_tol, active_tol, local_infeas_tol, obj_lower_limit",
        thorough="K=3 (K=4 without constraints); plus fixed and upper-bounded variables, eqb rows",
    ),
    outside=["IntegrationSolver (anchors name solver.py)", "runs longer than K trial steps", "n > 1"],
    explanation="Status justification re-evaluated by an independent oracle written from the statement (violation, box-projected J^T c with active_tol, objective limit, clock) on every path of the real termination logic.",
)


def tasks(tier):
    if tier == "quick":
        combos = [dict(cons=c, vars=v) for c, v in (([], ["boxed"]), (["eq0"], ["boxed"]), (["ge"], ["boxed"]), (["ranged"], ["lower"]), (["eq0"], ["free"]))]
        combos.append(dict(cons=["eq0"], vars=["boxed"], limit=False))
        combos.append(dict(cons=["eq0"], vars=["boxed", "upper"]))
        combos.append(dict(cons=["le"], vars=["lower"], scaling=dict(vw=[-2], cw=[1], ow=2)))
        combos.append(dict(cons=["eq0"], vars=["boxed"], x0_outside=True))
        combos.append(dict(cons=[], vars=["lower", "free"], x0_outside=True))
        combos.append(dict(cons=["eq0", "eq0"], vars=["boxed"]))  # two rows sharing the variable: J^T c is a genuine sum
        return loop.loop_tasks(combos, 2) + loop.loop_tasks([dict(cons=[], vars=["boxed"]), dict(cons=[], vars=["lower"], policy="ObjectiveFilter")], 4) + loop.loop_tasks([dict(cons=["eq0"], step_failures=True)], 2) + loop.loop_tasks([dict(cons=[], policy="ObjectiveFilter", step_failures=True)], 3)
    combos = [dict(cons=c, vars=v) for c in (["eq0"], ["eqb"], ["ge"], ["le"], ["ranged"]) for v in (["boxed"], ["fixed"], ["upper"])]
    combos.append(dict(cons=["eq0"], vars=["boxed"], limit=False))
    return loop.loop_tasks(combos, 3) + loop.loop_tasks([dict(cons=[], vars=v) for v in (["boxed"], ["free"], ["lower"])], 4) + loop.loop_tasks([dict(cons=c, policy=p, step_failures=True) for c in (["eq0"], ["ge"], []) for p in ("DualNorm", "ObjectiveFilter")], 3)
