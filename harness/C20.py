"""C20  Automatic scalings normalise magnitudes with exact powers of two."""
from . import scal

OWNED = ["C20."]
REQUIRED = ["C20.weights_are_integers", "C20.nominal_values_normalised", "C20.gradient_normalised", "C20.jacobian_row_max_normalised", "C20.kkt_column_sums_in_1_4", "C20.scaling_point_is_the_user_supplied_one", "C20.nonconvergence_is_an_error_not_a_scaling"]
META = dict(
    functions_encoded=scal.FUNCTIONS,
    stubs=["frexp(v) := (v*2^-e, e) with e the unique integer with 2^(e-1) <= |v| < 2^e, e=0 at 0 (threshold table over the window); ldexp(v,e) := v*2^e (table); sqrt only observed through frexp: exponent thresholds on the radicand", "create_scaling dispatch: uninterpreted user problem evaluated at the scaling point"],
    assumptions=["exact real arithmetic inside the exponent window: every argument of frexp is assumed to lie in the window (counted in the evidence as frexp_window_assumptions)", "float->int dtype stores truncate toward zero as numpy does"],
    bounds=dict(
        quick="data magnitudes 0 or in [2^-W0, 2^W0], W0=5 (Nominal), 3 (GradJac, KKT); n<=2, Jacobian <= 2x2 incl. duplicate COO entries; KKT <= 2x2, equilibration loop unwound 3; one 1x1 KKT with magnitudes down to 2^-36; one 5x5 KKT without any equilibration into [1,4) (zero Hessian, one row with four entries of magnitude in [1,2)) run through all 100 sweeps of the loop, exponents decided by forking",
        thorough="W0=8 (Nominal), 5 (GradJac), 3 (KKT); KKT 3x3; equilibration loop unwound 4; non-equilibrable 5x5 with magnitudes in [1/2,2) and 6x6",
    ),
    outside=["magnitudes outside the window", "equilibration runs needing more loop iterations than the unwinding (reported as paths aborted at the bound)", "overflow of the integer weights"],
    explanation="The real scale.py code runs on symbolic magnitudes; z3 proves the [1,2) / [1,4) normalisation ranges from the frexp threshold tables for all values in the window.",
)


def tasks(tier):
    q = tier == "quick"
    t = []

    def o(fw, ew, **k):
        d = dict(frexp_window=(-fw, fw), exp_window=(-ew, ew), timeout_ms=60000)
        d.update(k)
        return d

    W = 5 if q else 8
    t.append(dict(module="scal", fn="h_nominal", shape=dict(W0=W, n=2, m=1), opts=o(W + 2, 2 * W + 4)))
    W = 3 if q else 5
    t.append(dict(module="scal", fn="h_gradjac", shape=dict(W0=W, n=2, m=1, fmt="coo"), opts=o(2 * W + 2, 4 * W + 4)))
    t.append(dict(module="scal", fn="h_gradjac", shape=dict(W0=W, n=1, m=2, fmt="csr"), opts=o(2 * W + 2, 4 * W + 4)))
    t.append(dict(module="scal", fn="h_gradjac", shape=dict(W0=2, n=2, m=2, fmt="coo", pattern=[[0, 0], [0, 0], [1, 1]]), opts=o(7, 14)))
    t.append(dict(module="scal", fn="h_gradjac", shape=dict(W0=W, n=2, m=0), opts=o(2 * W + 2, 4 * W + 4)))
    U = 3 if q else 4
    t.append(dict(module="scal", fn="h_kkt", shape=dict(W0=3, n=1, m=1, unwind=U), opts=o(8, 24, sqrt_model="lazy")))
    t.append(dict(module="scal", fn="h_kkt", shape=dict(W0=3, n=2, m=0, unwind=U, hdiag_only=q), opts=o(8, 24, sqrt_model="lazy")))
    t.append(dict(module="scal", fn="h_kkt", shape=dict(W0=36, n=1, m=0, unwind=3, tiny=True), opts=o(20, 44, sqrt_model="lazy")))
    # no equilibration into [1,4) exists (one row coupling four variables that occur nowhere else): the
    # iteration runs through all of its 100 sweeps; it has to end in the error, not in a returned scaling
    nc = dict(frexp_window=(-4, 5), exp_window=(-8, 8), timeout_ms=60000, sqrt_model="lazy", frexp_mode="fork")
    t.append(dict(module="scal", fn="h_kkt", shape=dict(W0=3, n=4, m=1, unwind=101, no_hess=True, jrange=(1.0, 2.0)), opts=nc))
    if not q:
        t.append(dict(module="scal", fn="h_kkt", shape=dict(W0=3, n=4, m=1, unwind=101, no_hess=True, jrange=(0.5, 2.0)), opts=nc))
        t.append(dict(module="scal", fn="h_kkt", shape=dict(W0=3, n=5, m=1, unwind=101, no_hess=True, jrange=(1.0, 2.0)), opts=nc))
    if not q:
        t.append(dict(module="scal", fn="h_kkt", shape=dict(W0=2, n=2, m=1, unwind=U, hdiag_only=True), opts=o(8, 24, sqrt_model="lazy")))
        t.append(dict(module="scal", fn="h_kkt", shape=dict(W0=2, n=1, m=2, unwind=U), opts=o(8, 24, sqrt_model="lazy")))
    for kind in ("GradJac", "Nominal"):
        t.append(dict(module="scal", fn="h_dispatch", shape=dict(W0=3, kind=kind), opts=o(8, 24)))
        t.append(dict(module="scal", fn="h_dispatch", shape=dict(W0=3, kind=kind, cons=[]), opts=o(8, 24)))
    t.append(dict(module="scal", fn="h_dispatch", shape=dict(W0=3, kind="KKT", unwind=U), opts=o(8, 24, sqrt_model="lazy")))
    for kind, pol in (("GradJac", "cached"), ("Nominal", "memo")):
        t.append(dict(module="scal", fn="h_dispatch", shape=dict(W0=3, kind=kind, policy=pol, reuse=True, fmt="coo"), opts=o(8, 24)))
    # single working precision: the scaling is still computed from the user's double-precision data
    for kind in ("GradJac", "Nominal"):
        t.append(dict(module="scal", fn="h_dispatch", shape=dict(W0=3, kind=kind, single=True), opts=o(8, 24, fp32_round=True)))
    t.append(dict(module="scal", fn="h_dispatch", shape=dict(W0=3, kind="KKT", cons=[], unwind=U), opts=o(8, 24, sqrt_model="lazy")))
    return t
