"""C13  Residuals and augmented-Lagrangian derivatives match their definitions."""
from . import defs

OWNED = ["C13."]
REQUIRED = [
    "C13.aug_lag", "C13.aug_lag_deriv_x", "C13.aug_lag_deriv_xx", "C13.aug_lag_deriv_y", "C13.bounds_dual", "C13.stat_res", "C13.bound_violation",
    "C13.cons_violation", "C13.locally_infeasible", "C13.dist", "C13.residual_value", "C13.generalised_jacobian", "C13.projection_argument",
    "C13.active_set_rule", "C13.projection_keeps_active_components_in_box", "C13.projection_identity_on_inactive", "C13.keep_rows",
    "C13.generalised_jacobian_second_active_set", "C13.derivatives_unchanged_by_evaluation",
]
META = dict(
    functions_encoded=defs.FUNCTIONS,
    stubs=["user problem := fresh real symbols per distinct evaluation point; Lagrangian Hessian H(x,y) = H0(x) + sum_i y_i H_i(x) with symmetric symbol matrices (no uninterpreted functions: polynomial real arithmetic)"],
    assumptions=["exact real arithmetic (NRA); sqrt(v) is the r >= 0 with r*r = v", "rho > 0, dt > 0, lambda*dt = 1, active_tol >= 0; the flow's base point is inside the box (it is an accepted iterate)"],
    bounds=dict(quick="n<=2, m<=1; all five variable kinds; COO/CSR/CSC; arbitrary point (inside/on/outside bounds), arbitrary symbolic active set", thorough="n<=2, m<=2"),
    outside=["n>2, m>2", "floating-point rounding"],
    explanation="Each public quantity of Iterate / ImplicitFunc / ScaledImplicitFunc is proved equal (z3 nlsat, fresh solver per query) to the dense definition written from the statement, on every path (active-set masks are decided by forking only where a data-dependent length is observed).",
)


def tasks(tier):
    o = dict(nra=True, norm_model="exact", timeout_ms=60000)
    t = []
    its = [(["boxed"], ["eq0"], "coo"), (["lower", "upper"], ["eq0"], "csr"), (["boxed", "free"], [], "coo"), (["fixed", "boxed"], ["eq0"], "csc")]
    fns = [(["boxed", "free"], ["eq0"], "coo"), (["lower", "fixed"], ["eq0"], "csr"), (["upper", "boxed"], [], "csc"), (["boxed", "lower"], ["eq0"], "csc")]
    if tier != "quick":
        its += [(["boxed", "lower"], ["eq0", "eq0"], "csr"), (["free", "upper"], ["eq0", "eq0"], "coo")]
        fns += [(["boxed", "lower"], ["eq0", "eq0"], "coo"), (["free", "fixed"], ["eq0", "eq0"], "csc")]
    for v, c, f in its:
        t.append(dict(module="defs", fn="h_iterate", shape=dict(vars=v, cons=c, fmt=f), opts=o))
    for v, c, f in fns:
        for sc in (False, True):
            t.append(dict(module="defs", fn="h_func", shape=dict(vars=v, cons=c, fmt=f, scaled=sc), opts=o))
    for sc in (False, True):
        t.append(dict(module="defs", fn="h_func", shape=dict(vars=["boxed", "lower"], cons=["eq0"], fmt="csr", scaled=sc, default_active_set=True), opts=o))
    for fmt in ("coo", "csr", "csc"):
        t.append(dict(module="defs", fn="h_keep_rows", shape=dict(m=2, n=2, fmt=fmt, dup=(fmt == "coo")), opts={}))
    t.append(dict(module="defs", fn="h_keep_rows", shape=dict(m=3, n=2, fmt="coo", full=True), opts={}))
    return t
