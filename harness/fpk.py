"""Bit-exact IEEE-754 kernels (z3 QF_FP): the real StepResult._compute_xn / StepResult.iterate
run on arrays of symbolic binary64 / binary32 values."""
from symx import boot, core
from symx.core import iff, implies, ite, land, lnot, lor

from . import common
from .common import INF, arr, items

FUNCTIONS = ["pygradflow/step/solver/step_solver.py:StepResult.{__init__,_compute_xn,iterate}", "pygradflow/iterate.py:Iterate.__init__", "pygradflow/problem.py:Problem.__init__"]


def _notnan(v):
    if boot.MODE == "sym":
        return lnot(v.isnan())
    return v == v


def _finite(v):
    if boot.MODE == "sym":
        return lnot(lor(v.isnan(), v.isinf()))
    import math

    return math.isfinite(v)


def h_clip(E, shape):
    """lb <= x <= ub (IEEE comparisons), dx any non-NaN value  =>  lb <= xn <= ub exactly, for the
    point the Iterate is built from (after the dtype cast the code performs)"""
    np = boot.np
    P = boot.mod("params")
    Problem = boot.mod("problem").Problem
    Iterate = boot.mod("iterate").Iterate
    SR_ = boot.mod("step.solver.step_solver").StepResult
    n = shape["n"]
    single = shape.get("single", False)
    kinds = shape["vars"]
    lb, ub = [], []
    for j, k in enumerate(kinds):
        l = E.fp(f"lb{j}") if k in ("lower", "boxed") else -INF
        u = E.fp(f"ub{j}") if k in ("upper", "boxed") else INF
        if k in ("lower", "boxed"):
            E.assume(_finite(l))
        if k in ("upper", "boxed"):
            E.assume(_finite(u))
        if k == "boxed":
            E.assume(l <= u)
        lb.append(l)
        ub.append(u)

    class Prob(Problem):
        def __init__(self):
            super().__init__(arr(lb), arr(ub))

        def obj(self, x):
            raise NotImplementedError

        def obj_grad(self, x):
            raise NotImplementedError

        def lag_hess(self, x, y):
            raise NotImplementedError

    prob = Prob()
    params = P.Params(precision=P.Precision.Single if single else P.Precision.Double)
    bits = 32 if single else 64
    x = [E.fp(f"x{j}", bits) for j in range(n)]
    dx = [E.fp(f"dx{j}", bits) for j in range(n)]
    for j in range(n):
        E.assume(_finite(x[j]))  # iterates are finite points of the box
        E.assume(_notnan(dx[j]))
        E.assume(land(lb[j] <= x[j], x[j] <= ub[j]))
    xa = np.array(x, dtype=params.dtype)
    it = Iterate(prob, params, xa, np.zeros((0,), dtype=params.dtype))
    step = SR_(it, np.array(dx, dtype=params.dtype), np.zeros((0,), dtype=params.dtype), None)
    nx = items(step.iterate.x)
    pre = "C05.fp32." if single else "C05.fp64."
    for j in range(n):
        E.prove(land(lb[j] <= nx[j], nx[j] <= ub[j]), pre + "clipped_point_inside_bounds_exactly")
        E.prove(_notnan(nx[j]), pre + "clipped_point_not_nan")
