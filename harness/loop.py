"""L1 loop harness: the real Solver.solve main loop (termination tests, penalty strategies,
callbacks, path collection, result assembly, Transformation, evaluator) executed symbolically
with `Solver._compute_step` replaced by an oracle that returns ANY in-box iterate, ANY
lambda' > 0 and ANY accepted flag -- an over-approximation of every step controller x Newton
type x step solver x linear solver.  The user problem is uninterpreted (harness.common).

Obligations of C01(gate), C02, C12, C15, C16 are stated here against oracles written from the
property statements; each property's check owns the ids with its prefix.
"""
import types

from symx import boot, core
from symx.core import Abort, iff, implies, ite, land, lnot, lor, sabs, smax, smin

from . import common
from .common import INF, arr, items

HEAVY = ("ParetoDecrease", "DualEquilibration")
POLICIES = ["Constant", "DualNorm", "DualEquilibration", "ParetoDecrease", "ObjectiveFilter", "LagrangianFilter"]

FUNCTIONS = [
    "pygradflow/solver.py:Solver.__init__",
    "pygradflow/solver.py:Solver.solve",
    "pygradflow/solver.py:Solver._check_terminate",
    "pygradflow/solver.py:Solver.print_result",
    "pygradflow/transform.py:Transformation.{__init__,create_transformed_iterate,transform_sol,restore_sol,trans_problem}",
    "pygradflow/cons_problem.py:ConstrainedProblem.*",
    "pygradflow/eval.py:ValidatingEvaluator.*",
    "pygradflow/iterate.py:Iterate.{__init__,obj,obj_grad,cons,cons_jac,check_eval,active_set,bounds_dual,bound_violation,cons_violation,stat_res,total_res,is_feasible,locally_infeasible,dist,aug_lag,z}",
    "pygradflow/active_set.py:ActiveSet.__init__",
    "pygradflow/penalty.py:penalty_strategy and every PenaltyStrategy.initial/update",
    "pygradflow/timer.py:Timer.*",
    "pygradflow/callbacks.py:Callbacks.*",
    "pygradflow/display.py:solver_display, Display.should_display, print_problem_stats",
    "pygradflow/result.py:SolverResult.__init__/_set_path",
]
STUBS = [
    "Solver._compute_step := oracle: arbitrary in-box next iterate (real Iterate object), arbitrary lambda' > 0 with paired 1/lambda', arbitrary accepted flag",
    "user Problem callbacks := uninterpreted functions of the evaluation point",
    "pygradflow.timer.time := clock returning fresh non-decreasing instants",
    "logging at ERROR level (formatting never runs); display interval = inf unless the shape says otherwise",
]


class TimerSpy:
    """captures the Timer the solve creates (to know its start instant)"""

    def __init__(self, cls):
        self.cls = cls
        self.made = []

    def __call__(self, *a, **k):
        t = self.cls(*a, **k)
        self.made.append(t)
        return t


def setup(E, shape):
    """build problem, params, solver with oracle; returns a context namespace"""
    np = boot.np
    S = boot.mod("solver")
    P = boot.mod("params")
    K = shape["K"]
    pol = shape.get("policy", "DualNorm")
    vk = shape.get("vars", ["boxed"])
    ck = shape.get("cons", [])
    started = dict(loop=False, bad=[])
    faults = None
    if shape.get("start_faults"):
        # any of the evaluations made before the first trial step may return a non-finite value
        def faults(kind, v, idx):
            if started["loop"]:
                return v
            b = E.fresh_bool(f"bad_{kind}")
            started["bad"].append((kind, b))
            if boot.MODE == "sym":
                return core.SR(core.zexpr(v), bad=b.e)
            return float("nan") if b else v

    pf = None
    if shape.get("start_point_faults"):
        # failing evaluations as a property of the point (uninterpreted boolean functions of x): whether a
        # callback fails at the starting point does not depend on whether the library asks
        def pf(kind, xs):
            if started["loop"]:
                return False
            return E.ufb("bad_" + kind, *xs)

    user, spec = common.make_problem(E, vk, ck, fmt=shape.get("fmt", "coo"), faults=faults, policy=shape.get("policy_cb", "fresh"), point_faults=pf)
    clock = boot.Clock(E)
    boot.mod("timer").time = clock
    spy = TimerSpy(boot.mod("timer").Timer)
    S.Timer = spy
    kw = {}
    lim = None
    if shape.get("limit", True):
        lim = E.int("iteration_limit", 0, K)
        kw["iteration_limit"] = lim
    tl = INF
    if shape.get("time_limit", True):
        tl = E.real("time_limit", lo=0, lo_strict=True)
    opt_tol = E.real("opt_tol", lo=0, lo_strict=True)
    active_tol = E.real("active_tol", lo=0)
    infeas_tol = E.real("local_infeas_tol", lo=0)
    lamb_max = E.real("lamb_max", lo=1, lo_strict=True)
    rho0 = E.real("rho0", lo=0, lo_strict=True)
    obj_lower = E.real("obj_lower_limit")
    if shape.get("deriv_check"):
        kw["deriv_check"] = P.DerivCheck.CheckAll
        kw["deriv_pert"] = 2.0 ** -20
        kw["deriv_tol"] = E.real("deriv_tol", lo=0, lo_strict=True)
    sc = shape.get("scaling")  # concrete power-of-two weights: dict(vw=[..], cw=[..], ow=int)
    vw = list(sc["vw"]) if sc else [0] * len(vk)
    cw = list(sc["cw"]) if sc else [0] * len(ck)
    ow = sc["ow"] if sc else 0
    if sc:
        Scaling = boot.mod("scale").Scaling
        kw["scaling"] = Scaling(np.array(vw, dtype=int) if vw else np.zeros((0,), dtype=int), np.array(cw, dtype=int) if cw else np.zeros((0,), dtype=int), ow)
        kw["scaling_type"] = P.ScalingType.Custom
    spec.update(vw=vw, cw=cw, ow=ow, slack_pos=[i for i, k in enumerate(ck) if k not in ("eq0", "eqb")])
    params = P.Params(
        penalty_update=P.PenaltyUpdate[pol],
        collect_path=shape.get("collect_path", True),
        time_limit=tl,
        display_interval=shape.get("display_interval", INF),
        opt_tol=opt_tol,
        active_tol=active_tol,
        local_infeas_tol=infeas_tol,
        lamb_max=lamb_max,
        rho=rho0,
        obj_lower_limit=obj_lower,
        **kw,
    )
    owned_snap = common.snapshot([("user.var_lb", user.var_lb), ("user.var_ub", user.var_ub), ("user.cons_lb", user.cons_lb), ("user.cons_ub", user.cons_ub)])
    solver = S.Solver(user, params)
    ctx = types.SimpleNamespace(start_bad=started["bad"], owned_snap=owned_snap, E=E, shape=shape, K=K, pol=pol, user=user, spec=spec, clock=clock, spy=spy, params=params, solver=solver, lim=lim, tl=tl, trials=[], cbs=[], rhos_in_cb=[])
    prob = solver.problem
    lb, ub = items(prob.var_lb), items(prob.var_ub)
    ctx.lb, ctx.ub = lb, ub
    Iterate = boot.mod("iterate").Iterate
    SCR = boot.mod("step.step_control").StepControlResult

    def oracle(controller, iterate, rho, dt, display, timer):
        started["loop"] = True
        k = len(ctx.trials)
        if k >= K:
            raise Abort()  # bound on the number of trial steps reached
        xs = []
        for j in range(prob.num_vars):
            v = E.fresh_real(f"ox{k}_")
            E.assume(land(lb[j] <= v, v <= ub[j]))
            xs.append(v)
        ys = [E.fresh_real(f"oy{k}_") for _ in range(prob.num_cons)]
        lam = E.fresh_real(f"olam{k}_")
        rec = E.fresh_real(f"odt{k}_")
        E.assume(lam > 0)
        E.assume(rec > 0)
        if boot.MODE == "sym":
            lam.recip = rec
            rec.recip = lam
        else:
            rec = 1.0 / lam
        if shape.get("step_failures") and bool(E.fresh_bool(f"ofail{k}_")):
            # StepController.compute_step's failure result (StepSolverError / EvalError inside the
            # step computation): the same iterate object, a new step size, not accepted
            ctx.trials.append(dict(it=iterate, rho=rho, dt=dt, lam=lam, rec=rec, acc=False, nxt=iterate, srho=solver.rho, failed=True))
            return SCR(iterate, lam, None, None, False)
        acc = E.fresh_bool(f"oacc{k}_")
        accb = True if shape.get("always_accept") else bool(acc)  # shape option: runs of accepted steps only (deeper K)
        nxt = Iterate(prob, params, arr(xs), arr(ys), iterate.eval)
        ctx.trials.append(dict(it=iterate, rho=rho, dt=dt, lam=lam, rec=rec, acc=accb, nxt=nxt, srho=solver.rho))
        return SCR(nxt, lam, None, None, accb)

    solver._compute_step = oracle
    CT = boot.mod("callbacks").CallbackType

    def cb(it, nx, acc):
        ctx.cbs.append((it, nx, acc, solver.rho))

    solver.callbacks.register(CT.ComputedStep, cb)
    x0 = []
    for j in range(spec["n"]):
        v = E.real(f"x0_{j}")
        if not shape.get("x0_outside"):  # a start outside the box is legal input: only the C02 shapes that ask for it use one
            E.assume(land(spec["xl"][j] <= v, v <= spec["xu"][j]))
        x0.append(v)
    y0 = [E.real(f"y0_{i}") for i in range(spec["m"])]
    ctx.x0, ctx.y0 = x0, y0
    return ctx


def run(ctx):
    """run the real solve; returns result or None on the deliberate step-size abort"""
    E = ctx.E
    try:
        ctx.x0_arr = arr(ctx.x0)
        ctx.res = ctx.solver.solve(ctx.x0_arr, arr(ctx.y0) if ctx.spec["m"] else None)
        ctx.aborted = False
    except Exception as e:
        if "Inverse step size" in str(e) and type(e) is Exception:
            ctx.res = None
            ctx.aborted = True
        elif "Failed to evaluate initial iterate" in str(e) and type(e) is Exception and (ctx.shape.get("start_faults") or ctx.shape.get("start_point_faults")):
            ctx.res = None
            ctx.aborted = True
            ctx.initial_failure = True
        elif type(e).__name__ == "DerivError" and ctx.shape.get("deriv_check"):
            ctx.res = None
            ctx.aborted = True
            ctx.deriv_error = True
        else:
            raise
    return ctx.res


def internal_oracle(ctx, it):
    """independent evaluation of the internal (slack) problem at the internal point it.x, it.y,
    written from the user's UF callbacks through the reference transformation (scaling + slacks)"""
    from . import xform

    E, spec = ctx.E, ctx.spec
    x = items(it.x)
    y = items(it.y)
    ref = xform.reference(E, spec, x, y)  # the statement's scaled + slack reformulation
    return dict(x=x, y=y, c=ref["c"], J=ref["J"], g=ref["g"], f=ref["f"], N=ref["N"])


def check(ctx):
    """all L1 obligations on the finished run"""
    E, p, trials, cbs = ctx.E, ctx.params, ctx.trials, ctx.cbs
    Status = boot.mod("status").SolverStatus
    # reaching this point means solve() returned a result or raised one of its deliberate errors
    # (anything else propagated out of the harness and is recorded as a crash)
    E.prove(ctx.aborted or isinstance(ctx.res.status, Status), "C06.solve_ends_with_a_status_or_a_deliberate_error")
    shape = ctx.shape
    # ---------------- C15 / C16 over the sequence of trials (also when the solve aborted)
    for k, t in enumerate(trials):
        E.prove(t["rho"] > 0, "C16.rho_positive")
        E.prove(t["rho"] == t["srho"], "C16.trial_uses_solver_rho")
        if ctx.pol == "Constant":
            E.prove(t["rho"] == p.rho, "C16.constant_policy_never_changes")
        if k == 0:
            E.prove(t["dt"] * p.lamb_init == 1.0, "C15.first_dt_is_1_over_lamb_init")
            E.prove(t["rho"] == p.rho, "C16.initial_rho_is_params_rho")
        else:
            q = trials[k - 1]
            E.prove(t["rho"] >= q["rho"], "C16.rho_monotone")
            E.prove(t["dt"] == q["rec"], "C15.dt_is_1_over_previous_lambda")
            E.prove(q["lam"] < p.lamb_max, "C15.no_trial_after_lamb_max")
            moved = t["it"] is not q["it"]
            if moved:
                E.prove(q["acc"] and t["it"] is q["nxt"], "C15.iterate_changes_only_to_accepted_candidate")
            if not q["acc"]:
                E.prove(t["it"] is q["it"], "C15.iterate_kept_after_rejection")
            if ctx.pol == "DualNorm" and moved:
                yn = common.inf_norm(items(q["nxt"].y))
                E.prove(t["rho"] <= smax(q["rho"], yn), "C16.dualnorm_bounded_by_multiplier_norm")
                E.prove(t["rho"] <= 10.0 * q["rho"], "C16.dualnorm_at_most_tenfold")
            if not moved:
                if ctx.pol not in ("ObjectiveFilter", "LagrangianFilter"):
                    E.prove(t["rho"] == q["rho"], "C16.rho_changes_only_on_accept")
    if ctx.shape.get("start_point_faults"):
        kinds = ["obj", "obj_grad", "lag_hess"] + (["cons", "cons_jac"] if ctx.spec["m"] else [])
        anyb = False
        for kind in kinds:
            anyb = lor(anyb, E.ufb("bad_" + kind, *ctx.x0))
        # the dedicated error is raised iff one of the callbacks fails at the starting point
        E.prove(iff(bool(getattr(ctx, "initial_failure", False)), anyb), "C07.initial_error_iff_a_callback_fails_at_the_start")
    if getattr(ctx, "initial_failure", False):
        E.prove(len(trials) == 0, "C07.initial_point_failure_is_the_dedicated_error_before_any_step")
        return
    if ctx.shape.get("start_faults"):
        # the solve went on: nothing evaluated at the start was non-finite
        st = ctx.start_iterate
        bad = False
        for q in [st.obj] + items(st.obj_grad) + (items(st.cons) if ctx.spec["m"] else []):
            if isinstance(q, core.SR) and q.bad is not None:
                bad = lor(bad, core.SB(q.bad))
        E.prove(lnot(bad), "C07.solve_proceeds_only_from_a_finite_start")
        # ... including the Jacobian and the Hessian: every value any callback returned before the
        # first trial step was finite
        anyb = False
        for kind, b in ctx.start_bad:
            anyb = lor(anyb, b)
        E.prove(lnot(anyb), "C07.solve_proceeds_only_if_every_start_evaluation_was_finite")
    if getattr(ctx, "deriv_error", False):
        E.prove(len(trials) == 0, "C19.derivative_error_is_raised_before_the_first_step")
        return
    if ctx.aborted:
        E.prove(trials[-1]["lam"] >= p.lamb_max, "C15.abort_only_at_lamb_max")
        return
    if ctx.shape.get("deriv_check"):
        E.prove(common.eq_all(items(ctx.x0_arr), ctx.x0), "C19.check_leaves_the_start_point_unchanged")
    res = ctx.res
    st = res.status
    # final iterate according to the trial log
    cur = trials[0]["it"] if trials else None
    changes = 0
    for k, t in enumerate(trials):
        nxt_it = trials[k + 1]["it"] if k + 1 < len(trials) else None
    # reconstruct the current iterate sequence from identities
    seq = [t["it"] for t in trials]
    E.prove(res.iterations == len(trials), "C12.iterations_equals_trials")
    E.prove(len(cbs) == len(trials), "C12.iterations_equals_callbacks")
    # ---------------- C02 limits
    if ctx.lim is not None:
        E.prove(res.iterations <= ctx.lim, "C02.iterations_le_limit")
        E.prove(iff(st == Status.IterationLimit, ctx.lim == res.iterations), "C02.iteration_limit_iff_count_equals_limit")
    else:
        E.prove(st != Status.IterationLimit, "C02.iteration_limit_iff_count_equals_limit")
    timer = ctx.spy.made[-1]
    if st == Status.TimeLimit:
        E.prove(ctx.tl != INF and ctx.clock.reads[-1] - timer.start >= ctx.tl, "C02.time_limit_only_after_deadline")
    # ---------------- final iterate identification (C12 / C01 gate / C08)
    final = ctx.final_iterate
    d = items(final.bounds_dual)
    n = ctx.spec["n"]
    from .xform import ld

    vw, cw, ow = ctx.spec["vw"], ctx.spec["cw"], ctx.spec["ow"]
    E.prove(common.eq_all(items(res.x), [ld(v, -vw[j]) for j, v in enumerate(items(final.x)[:n])]), "C12.result_is_last_accepted.x")
    E.prove(common.eq_all(items(res.y), [ld(v, cw[i] - ow) for i, v in enumerate(items(final.y))]), "C12.result_is_last_accepted.y")
    E.prove(common.eq_all(items(res.d), [ld(v, vw[j] - ow) for j, v in enumerate(d[:n])]), "C12.result_is_last_accepted.d")
    E.prove(common.in_box(items(res.x), ctx.spec["xl"], ctx.spec["xu"]), "C05.result_in_box")
    O = internal_oracle(ctx, final)
    tol = p.opt_tol
    cv = common.inf_norm(O["c"])
    if st == Status.Optimal:
        # gate: the iterate whose x,y,d are returned has total residual <= opt_tol, with the
        # residual re-evaluated by the independent oracle (r = g + J^T y + d)
        E.prove(cv <= tol, "C01.gate.cons_violation")
        r = [O["g"][j] + sum((O["J"][i][j] * O["y"][i] for i in range(len(O["y"]))), 0.0) + d[j] for j in range(O["N"])]
        E.prove(common.inf_norm(r) <= tol, "C01.gate.stationarity")
        E.prove(common.in_box(O["x"], ctx.lb, ctx.ub), "C01.gate.bounds_exact")
    if st == Status.LocallyInfeasible:
        E.prove(cv > tol, "C02.locally_infeasible.violation_exceeds_tol")
        gr = []
        for j in range(O["N"]):
            gj = sum((O["J"][i][j] * O["c"][i] for i in range(len(O["c"]))), 0.0)
            atl = sabs(O["x"][j] - ctx.lb[j]) <= p.active_tol if ctx.lb[j] != -INF else False
            atu = sabs(ctx.ub[j] - O["x"][j]) <= p.active_tol if ctx.ub[j] != INF else False
            gj = ite(land(atl, atu), 0.0, ite(atl, smin(gj, 0.0), ite(atu, smax(gj, 0.0), gj)))
            gr.append(gj)
        E.prove(common.inf_norm(gr) <= p.local_infeas_tol, "C02.locally_infeasible.stationary_for_violation")
    if st == Status.Unbounded:
        bv = 0.0
        for j in range(O["N"]):
            if ctx.lb[j] != -INF:
                bv = smax(bv, ctx.lb[j] - O["x"][j])
            if ctx.ub[j] != INF:
                bv = smax(bv, O["x"][j] - ctx.ub[j])
        E.prove(land(cv <= tol, bv <= tol), "C02.unbounded.feasible")
        E.prove(O["f"] <= p.obj_lower_limit, "C02.unbounded.objective_below_limit")
    # ---------------- C12 accepted steps, callbacks, path
    cur = ctx.start_iterate
    changed = []
    for k, t in enumerate(trials):
        E.prove(t["it"] is cur, "C12.step_starts_from_current_iterate")
        E.prove(cbs[k][0] is cur and cbs[k][1] is t["nxt"], "C12.callback_announces_this_step")
        nxt_cur = trials[k + 1]["it"] if k + 1 < len(trials) else final
        if nxt_cur is not cur:
            changed.append(k)
        E.prove(iff(cbs[k][2], nxt_cur is not cur), "C12.callback_accept_flag_matches_iterate_change")
        E.prove(cbs[k][3] > 0, "C16.rho_positive_in_callback")
        cur = nxt_cur
    E.prove(res.num_accepted_steps == len(changed), "C12.accepted_equals_iterate_changes")
    E.prove(final is (trials[changed[-1]]["nxt"] if changed else ctx.start_iterate), "C12.final_is_last_accepted")
    if p.collect_path:
        path = res.path
        mt = items(res.model_times)
        E.prove(len(mt) == len(changed) + 1 and tuple(path.shape) == (len(items(final.z)), len(changed) + 1), "C12.path_has_accepted_plus_one_columns")
        if len(mt) == len(changed) + 1 and tuple(path.shape) == (len(items(final.z)), len(changed) + 1):
            cols = [ctx.start_iterate] + [trials[k]["nxt"] for k in changed]
            ok = True
            for c, itc in enumerate(cols):
                ok = land(ok, common.eq_all(items(path[:, c]), items(itc.z)))
            E.prove(ok, "C12.path_columns_are_accepted_iterates_in_order")
            E.prove(mt[0] == 0.0, "C12.model_time_starts_at_zero")
            for i, k in enumerate(changed):
                E.prove(mt[i + 1] - mt[i] == trials[k]["dt"], "C12.model_time_advances_by_dt_used")
    else:
        E.prove(res.path is None, "C12.no_path_unless_requested")
    E.prove(res.dist_factor >= 1.0, "C12.dist_factor_at_least_one")
    # caller-owned data after a whole solve (C11)
    E.prove(common.eq_all(items(ctx.x0_arr), ctx.x0), "C11.solve_leaves_the_start_point_unchanged")
    if ctx.spec["handed"]:
        common.check_snapshots(E, ctx.spec["handed"], "C11.solve_leaves_cached_callback_results_unchanged")
    common.check_snapshots(E, ctx.owned_snap, "C11.solve_leaves_bound_arrays_unchanged")
    # start iterate is the transformed x0 (slack = clip(c(x0), l, u))
    sx = items(ctx.start_iterate.x)
    E.prove(common.eq_all(sx[:n], [ld(v, vw[j]) for j, v in enumerate(ctx.x0)]), "C12.first_step_starts_from_x0")
    E.prove(common.in_box(sx, ctx.lb, ctx.ub), "C05.start_in_box")


def h_loop(E, shape):
    ctx = setup(E, shape)
    Iterate = boot.mod("iterate").Iterate
    # capture the starting iterate and the final iterate through the public objects
    T = ctx.solver.transform
    orig_cti = T.create_transformed_iterate

    def cti(x0, y0):
        it = orig_cti(x0, y0)
        ctx.start_iterate = it
        return it

    T.create_transformed_iterate = cti
    orig_restore = T.restore_sol
    seen = {}

    def restore(x, y, d):
        seen["x"] = x
        return orig_restore(x, y, d)

    T.restore_sol = restore
    run(ctx)
    if not ctx.aborted:
        # the iterate whose x was handed to restore_sol
        cands = [ctx.start_iterate] + [t["nxt"] for t in ctx.trials]
        fin = [c for c in cands if c.x is seen.get("x")]
        E.prove(len(fin) >= 1, "C12.result_built_from_a_real_iterate")
        if not fin:
            return
        ctx.final_iterate = fin[-1]
    check(ctx)
    if shape.get("deriv_check") and shape.get("second_solve") and not ctx.aborted:
        # C19 "for every starting point": the same Solver asked to solve again from another start point
        # checks the derivatives THERE as well (its finite differences need the objective at x0' + h e_j)
        spec, p = ctx.spec, ctx.params
        x1 = []
        for j in range(spec["n"]):
            v = E.real(f"x1_{j}")
            E.assume(land(spec["xl"][j] <= v, v <= spec["xu"][j]))
            x1.append(v)
        nc = len(spec["calls"])
        p.iteration_limit = 0
        rejected = False
        try:
            ctx.solver.solve(arr(x1), arr(ctx.y0) if spec["m"] else None)
        except Exception as e:
            if type(e).__name__ != "DerivError":
                raise
            rejected = True  # the check ran (and stops at the first wrong column)
        probes = [xs for (kind, xs, ys, site) in spec["calls"][nc:] if kind == "obj"]
        ok = True
        for j in range(spec["n"]):
            want = [x1[i] + (p.deriv_pert if i == j else 0.0) for i in range(spec["n"])]
            ok = land(ok, lor(False, *[common.eq_all(xs, want) for xs in probes]))
        E.prove(True if rejected else ok, "C19.every_solve_checks_the_derivatives_at_its_own_start_point")


def loop_tasks(combos, K, opts=None):
    out = []
    for c in combos:
        Kc = K
        if c.get("policy") in HEAVY and c.get("cons") and K > 2:
            Kc = 2  # 15 k paths / 20 min single core at K=3 (measured): these two policies stay at K=2
        sh = dict(K=Kc, policy=c.get("policy", "DualNorm"), vars=c.get("vars", ["boxed"]), cons=c.get("cons", []))
        for k in ("limit", "time_limit", "collect_path", "fmt", "deriv_check", "start_faults", "policy_cb", "scaling", "step_failures", "x0_outside", "start_point_faults", "always_accept", "second_solve"):
            if k in c:
                sh[k] = c[k]
        o = dict(mulmode="uf", timeout_ms=20000)
        o.update(opts or {})
        out.append(dict(module="loop", fn="h_loop", shape=sh, opts=o))
    return out


LOOP_ASSUMPTIONS = [
    "exact real arithmetic (rounding/overflow outside); products of two symbolic reals are uninterpreted with sign/zero facts (LRA+UF); 2-norms of vectors of length >= 2 are any value with max|v_i| <= r <= sum|v_i| plus instantiated triangle inequalities",
    "Solver._compute_step returns an in-box iterate, lambda' > 0 and a boolean -- the contract of StepController.compute_step (C05/C07/C15 L2 harnesses check the controllers against it)",
    "validate_input=True, no scaling (scalings are exact changes of variables: C04)",
]
