"""C18  The penalty filter is a Pareto front.

Encoded (real source, executed symbolically): pygradflow.penalty.PenaltyFilter.__init__,
filter_insert, update; ObjectivePenaltyFilter.iterate_entry; LagrangianPenaltyFilter.iterate_entry.
Oracle: the reference set model written here from the property statement.
"""
import types

from symx import boot, core
from symx.core import implies, land, lnot, lor, iff

META = dict(
    functions_encoded=[
        "pygradflow/penalty.py:PenaltyFilter.__init__",
        "pygradflow/penalty.py:PenaltyFilter.filter_insert",
        "pygradflow/penalty.py:PenaltyFilter.update",
        "pygradflow/penalty.py:ObjectivePenaltyFilter.iterate_entry",
        "pygradflow/penalty.py:LagrangianPenaltyFilter.iterate_entry",
    ],
    bounds=dict(
        quick="bounded: every sequence of N<=4 insertions from the empty filter; inductive: one update from an arbitrary antichain of k<=3 entries; Lagrangian entries: N<=2, n=m=1 (NRA); Precision.Single: N<=3 and k=2 (float32 stores as uninterpreted rounding)",
        thorough="bounded: N<=5; inductive: k<=4; Lagrangian entries: N<=2, n=m=1",
    ),
    outside=["NaN/inf coordinates", "longer insertion sequences are covered by the inductive step only up to filters of k entries"],
    stubs=["the iterate handed to update() is a record carrying arbitrary real obj / cons_violation (Objective) or arbitrary real gradient/constraint vectors (Lagrangian)"],
    assumptions=["coordinates are finite reals (exact arithmetic)", "rho > 0"],
    explanation="All paths of the real filter code over symbolic reals; per path z3 discharges: refuse <=> dominated, removed set == dominated set, rho rule, antichain invariant.",
)
REQUIRED = ["C18.refuse_iff_dominated", "C18.antichain", "C18.removed_exactly_dominated", "C18.rho_on_accept", "C18.rho_on_refuse", "C18.entries_unchanged_on_refuse"]


def tasks(tier):
    N = 4 if tier == "quick" else 5
    K = 3 if tier == "quick" else 4
    t = [dict(fn="h_seq", shape=dict(N=N, cls="ObjectivePenaltyFilter"))]
    for k in range(0, K + 1):
        t.append(dict(fn="h_step", shape=dict(k=k, cls="ObjectivePenaltyFilter")))
    t.append(dict(fn="h_seq", shape=dict(N=2, cls="LagrangianPenaltyFilter"), opts=dict(nra=True, norm_model="exact")))
    # single working precision: the filter compares the values the iterate reports (float32 stores modelled by R32)
    t.append(dict(fn="h_seq", shape=dict(N=3, cls="ObjectivePenaltyFilter", single=True), opts=dict(fp32_round=True)))
    t.append(dict(fn="h_step", shape=dict(k=2, cls="ObjectivePenaltyFilter", single=True), opts=dict(fp32_round=True)))
    return t


def dom(p, q):
    """p is at least as good as q in both coordinates (the statement's domination)"""
    return land(p[0] <= q[0], p[1] <= q[1])


def _mk(E, cls, rho, single=False):
    pen = boot.mod("penalty")
    P = boot.mod("params")
    params = P.Params(rho=rho, precision=P.Precision.Single) if single else P.Params(rho=rho)
    problem = types.SimpleNamespace(num_cons=1, num_vars=1, var_bounded=False)
    return getattr(pen, cls)(problem, params)


def _iterate(E, cls, k):
    np = boot.np
    if cls == "ObjectivePenaltyFilter":
        a = E.real(f"obj{k}")
        b = E.real(f"viol{k}", lo=0)
        return types.SimpleNamespace(obj=a, cons_violation=b), None
    g = E.real(f"g{k}")
    c = E.real(f"c{k}")
    j = E.real(f"j{k}")
    y = E.real(f"y{k}")

    class It:
        cons = np.array([c])

        def aug_lag_deriv_x(self, rho):
            return np.array([g + j * (rho * c + y)])

        def aug_lag_deriv_y(self):
            return np.array([c])

    return It(), (g, c, j, y)


def _check_update(E, f, before, rho_before, it, cls, raw):
    res = f.update(None, it)
    after = list(f.entries)
    if cls == "ObjectivePenaltyFilter":
        e = (it.obj, it.cons_violation)
    else:
        g, c, j, y = raw
        lx = g + j * (rho_before * c + y)
        e = (lx * lx + c * c, abs(c))
        # the entry the filter stored/tested must be the documented pair
        if res.accept:
            E.prove(land(after[-1][0] == e[0], after[-1][1] == e[1]), "C18.lagrangian_entry_definition")
    dominated = lor(*[dom(p, e) for p in before]) if before else False
    E.prove(iff(res.accept, lnot(dominated)), "C18.refuse_iff_dominated")
    if res.accept:
        E.prove(res.next_rho == rho_before, "C18.rho_on_accept")
        E.prove(f.rho == rho_before, "C18.rho_on_accept")
        ok = True
        for p in before:
            kept = any(q is p for q in after)
            ok = land(ok, iff(dom(e, p), not kept))
        ok = land(ok, len(after) >= 1 and len([q for q in after if not any(q is p for p in before)]) == 1)
        ok = land(ok, after[-1][0] == e[0], after[-1][1] == e[1])
        E.prove(ok, "C18.removed_exactly_dominated")
    else:
        E.prove(res.next_rho == 10.0 * rho_before, "C18.rho_on_refuse")
        E.prove(f.rho == 10.0 * rho_before, "C18.rho_on_refuse")
        E.prove(len(after) == len(before) and all(a is b for a, b in zip(after, before)), "C18.entries_unchanged_on_refuse")
    anti = True
    for i, p in enumerate(after):
        for k, q in enumerate(after):
            if i != k:
                anti = land(anti, lnot(dom(p, q)))
    E.prove(anti, "C18.antichain")
    return res


def h_seq(E, shape):
    """every sequence of N insertions starting from the empty filter"""
    cls = shape["cls"]
    rho0 = E.real("rho0", lo=0, lo_strict=True)
    f = _mk(E, cls, rho0, shape.get("single", False))
    E.prove(len(f.entries) == 0, "C18.starts_empty")
    for k in range(shape["N"]):
        before = list(f.entries)
        rho_before = f.rho
        it, raw = _iterate(E, cls, k)
        _check_update(E, f, before, rho_before, it, cls, raw)


def h_step(E, shape):
    """inductive step: arbitrary antichain of k entries, arbitrary rho > 0, one update"""
    cls = shape["cls"]
    k = shape["k"]
    rho0 = E.real("rho0", lo=0, lo_strict=True)
    f = _mk(E, cls, rho0, shape.get("single", False))
    ents = [(E.real(f"p{i}_0"), E.real(f"p{i}_1")) for i in range(k)]
    for i, p in enumerate(ents):
        for l, q in enumerate(ents):
            if i != l:
                E.assume(lnot(dom(p, q)))
    f.entries = list(ents)
    it, raw = _iterate(E, cls, 0)
    _check_update(E, f, list(ents), f.rho, it, cls, raw)
