"""C17  Linear solvers return the solution or fail loudly -- wrapper contract (partial claim)."""
from . import linsol

OWNED = ["C17."]
REQUIRED = [
    "C17.lu_factorisation_failure_is_linear_solver_error", "C17.lu_solves_the_requested_system", "C17.unconverged_iteration_never_returns_a_vector", "C17.error_only_when_the_iteration_reports_failure",
    "C17.iteration_runs_on_the_requested_matrix", "C17.iteration_gets_the_right_hand_side", "C17.initial_guess_forwarded", "C17.returns_the_library_solution",
    "C17.early_return_only_if_guess_solves_requested_system", "C17.dispatch", "C17.minres_requires_symmetric", "C17.matrix_not_modified",
]
META = dict(
    functions_encoded=linsol.FUNCTIONS,
    stubs=[
        "scipy.sparse.linalg.splu := contract stub: may raise RuntimeError (symbolic); its solve(rhs, trans) returns any s with M s = rhs ('N') or M^T s = rhs ('T') -- SuperLU's guarantee under partial pivoting (its default); when the wrapper relaxes the pivoting (diag_pivot_thresh != 1, SymmetricMode) the stub promises nothing about s",
        "scipy.sparse.linalg.gmres / minres := contract stubs returning an arbitrary vector and an arbitrary integer info",
    ],
    assumptions=["the numerical accuracy of SuperLU / GMRES / MINRES (first sentence of the property: small relative residual for nonsingular systems) is compiled library code and is NOT decided here; what is decided is that the wrappers hand the library the requested system and never return a vector when the library reports failure"],
    bounds=dict(quick="n<=2 matrices with symbolic entries in COO/CSR/CSC, forward and transposed solves, with and without initial guess, LU / GMRES / MINRES and the dispatch", thorough="n=3"),
    outside=["residual size / backward error of the compiled solvers", "Cholesky / MA57 / MUMPS / SSIDS wrappers (packages not installed)"],
    explanation="Every path of the real wrappers over arbitrary library behaviour: RuntimeError => LinearSolverError; info != 0 => LinearSolverError, never a vector; the library is called on M (or M^T when trans), the right-hand side and the caller's initial guess; the GMRES early return happens only when the guess solves the requested system to 1e-8.",
)


def tasks(tier):
    n = 2 if tier == "quick" else 3
    o = dict(nra=True, timeout_ms=60000)
    t = [dict(module="linsol", fn="h_lu", shape=dict(n=n, fmt=f), opts=o) for f in ("csc", "coo", "csr")]
    t += [dict(module="linsol", fn="h_lu", shape=dict(n=n, fmt=f, symmetric=True), opts=o) for f in ("csc", "csr")]  # the way the symmetric step solver asks for it
    for kind in ("GMRES", "MINRES"):
        for trans in (False, True):
            for guess in (False, True):
                t.append(dict(module="linsol", fn="h_krylov", shape=dict(n=n, kind=kind, trans=trans, guess=guess, fmt="csr" if trans else "coo"), opts=o))
    t.append(dict(module="linsol", fn="h_dispatch", shape={}, opts=o))
    return t
