"""C11  Caller-owned data is never modified; cached callback results are safe."""
from . import loop, xform

OWNED = ["C11.", "C12.result_is_last_accepted", "C01.gate.", "C04.cons", "C04.cons_jac", "C04.lag_hess", "C04.obj_grad", "C04.obj"]
REQUIRED = ["C11.scaling_inputs_unchanged", "C11.scaling_leaves_cached_callback_results_unchanged", "C11.solve_leaves_the_start_point_unchanged", "C11.solve_leaves_cached_callback_results_unchanged", "C11.solve_leaves_bound_arrays_unchanged", "C11.caller_owned_unchanged", "C11.cached_callback_results_unchanged", "C11.argument_arrays_unchanged", "C11.start_point_unchanged", "C04.cons_jac", "C04.lag_hess"]
META = dict(
    functions_encoded=xform.FUNCTIONS,
    stubs=["user Problem callbacks := uninterpreted functions; return policy in {cached constant J/H object, memoised per point (same object for the same point)}; formats COO/CSR/CSC with scipy's measured share/copy table"],
    assumptions=["aliasing of numpy/scipy operations as measured by symx.aliasprobe on the installed versions (recorded in the evidence)", "exact real arithmetic, power-of-two scaling table (|weights|<=W)"],
    bounds=dict(
        quick="n=1, m=1; row kinds eq0/eqb/ge/ranged; policies cached, memo; formats COO/CSR/CSC; W in {0,1}; three evaluation rounds (x, x', x again) + transform/restore + start iterate",
        thorough="n<=2, m<=2; all row kinds; W=2",
    ),
    outside=["callbacks that reuse one output buffer for different points (not among the stated policies)", "the step solvers' use of the cached matrices inside a whole solve (L1 stubs the step computation; the step solvers copy.copy / tocsc their inputs: read, not proved)"],
    explanation="Value snapshots (z3 terms) of every caller-owned array and of every object a caching callback handed out are compared after each entry point; the values the pipeline returns on a cache hit must still equal the reference transformation (twin fresh/cached equality).",
)


def tasks(tier):
    t = []
    # a whole solve (L1) over caching callbacks: cached constant J/H, memoised per point
    K = 1 if tier == "quick" else 2
    t += loop.loop_tasks([dict(policy="DualNorm", cons=["eq0"], policy_cb=pc, fmt=f) for pc, f in (("cached", "coo"), ("memo", "csr"), ("memo", "coo"))], K)
    t += loop.loop_tasks([dict(policy="DualNorm", cons=["ge"], policy_cb="memo", fmt="csc")], K)
    # automatic scalings read user-owned arrays (scaling point, callback results at that point)
    def so(fw, ew, **k):
        d = dict(frexp_window=(-fw, fw), exp_window=(-ew, ew))
        d.update(k)
        return d

    t.append(dict(module="scal", fn="h_nominal", shape=dict(W0=3, n=2, m=1), opts=so(5, 10)))
    t.append(dict(module="scal", fn="h_gradjac", shape=dict(W0=3, n=2, m=1, fmt="coo"), opts=so(8, 16)))
    t.append(dict(module="scal", fn="h_gradjac", shape=dict(W0=3, n=1, m=1, fmt="csr"), opts=so(8, 16)))
    t.append(dict(module="scal", fn="h_kkt", shape=dict(W0=3, n=1, m=1, unwind=3), opts=so(8, 24, sqrt_model="lazy")))
    for kind in ("GradJac", "Nominal"):
        t.append(dict(module="scal", fn="h_dispatch", shape=dict(W0=3, kind=kind, policy="memo"), opts=so(8, 24)))
    # single working precision over double-precision callbacks: conversions must not touch the caller's objects
    for pol, fmt, c, W in (("cached", "coo", ["eq0"], 0), ("memo", "csr", ["eq0"], 0), ("cached", "csc", ["eqb"], 0), ("memo", "coo", ["ge"], 1)):
        t.append(dict(module="xform", fn="h_transform", shape=dict(vars=["boxed"], cons=c, W=W, fmt=fmt, policy=pol, rounds=2, single=True), opts=dict(exp_window=(-4, 4))))
    # the step solvers on matrices the callbacks keep (all four formulations, CSR / CSC / COO)
    for sv, f in (("Standard", "csr"), ("Symmetric", "csc"), ("Asymmetric", "csr"), ("Asymmetric", "csc"), ("Extended", "coo")):
        t.append(dict(module="steps", fn="h_owned", shape=dict(vars=["boxed"], cons=["eq0"], solver=sv, fmt=f), opts=dict(nra=True, timeout_ms=60000)))
    if tier == "quick":
        for pol in ("cached", "memo"):
            for k, (fmt, c, W) in enumerate([("coo", ["eq0"], 1), ("csr", ["ge"], 1), ("csc", ["eqb"], 1), ("coo", ["eqb"], 0), ("csr", ["ranged"], 0), ("coo", ["ge"], 0)]):
                t.append(dict(module="xform", fn="h_transform", shape=dict(vars=["boxed"], cons=c, W=W, fmt=fmt, policy=pol, rounds=3), opts=dict(exp_window=(-4, 4))))
        return t
    for pol in ("cached", "memo"):
        for fmt in ("coo", "csr", "csc"):
            for c in (["eq0", "ge"], ["eqb", "ranged"], ["le", "eqb"]):
                for W in (0, 2):
                    t.append(dict(module="xform", fn="h_transform", shape=dict(vars=["boxed", "lower"], cons=c, W=W, fmt=fmt, policy=pol, rounds=3), opts=dict(exp_window=(-7, 7))))
    return t
