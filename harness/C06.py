"""C06  solve() ends with a status or a deliberate error, never an internal crash (partial).

Decided here: on EVERY path explored by a broad union of the harnesses of this suite (L1 loop with
all penalty policies, L2 controllers x Newton methods with a symbolic fault schedule, L3 step
solvers, reformulation pipeline, scalings, observers) no exception other than the deliberate ones
leaves pygradflow code -- in exact real arithmetic.  Declared outside: finiteness of returned
x, y, d and absence of overflow in whole floating-point runs; `y.dot(yprod) > 0` in the condition
estimator under inexact solves (accuracy of the compiled LU; with exact solves and one power
iteration the real estimator is run against the real wrappers)."""
from . import ctrl, linsol, loop, scal, steps, twin, xform

OWNED = ["C06.", "C17.matrix_not_modified", "C07.linear_solver_failure_becomes_step_solver_error", "C07.only_declared_failures_reach_compute_step"]
REQUIRED = ["C06.solve_ends_with_a_status_or_a_deliberate_error", "C06.compute_step_always_returns_a_result"]
META = dict(
    functions_encoded=loop.FUNCTIONS + ctrl.FUNCTIONS + steps.FUNCTIONS,
    stubs=loop.STUBS + ctrl.STUBS + ["L3: exact-solve oracle with symbolic failures"],
    assumptions=loop.LOOP_ASSUMPTIONS + ["internal asserts (fact > 0, val > 0 in LogController.update, next_rho > rho, isfinite(bound), path_dist >= direct_dist) are executed as written on every explored path: they are unreachable in exact real arithmetic within the bounds; their floating-point corner cases (overflow of lambda*rho, underflow of d2/d1) are outside"],
    bounds=dict(quick="K=2 loop (6 policies), one compute_step (4 controllers x Newton methods, faults), first Newton step of the 4 step solvers incl. exact-cancellation forking for the asymmetric formulation, pipeline n<=2", thorough="K=3, more shapes"),
    outside=["non-finite results / overflow / domain errors of whole floating-point runs", "condition estimator assertion", "cyipopt-based controllers"],
    explanation="The crash obligation (any exception escaping pygradflow code on a feasible path is a counterexample, replayed on the real code) aggregated over the union of harness tasks.",
)


def tasks(tier):
    q = tier == "quick"
    t = loop.loop_tasks([dict(policy=p, cons=["eq0"]) for p in loop.POLICIES] + [dict(policy="DualNorm", cons=["ge"]), dict(policy="ParetoDecrease", cons=[]), dict(policy="DualNorm", cons=["eq0"], step_failures=True), dict(policy="ObjectiveFilter", cons=["ge"], step_failures=True)], 2 if q else 3)
    t += ctrl.ctrl_tasks(tier)
    o = dict(nra=True, timeout_ms=120000)
    for sv in steps.SOLVERS:
        t.append(dict(module="steps", fn="h_step", shape=dict(vars=["boxed"], cons=["eq0"], solver=sv), opts=dict(o, sparse_cancel="fork") if sv == "Asymmetric" else o))
        t.append(dict(module="steps", fn="h_faults", shape=dict(vars=["boxed"], cons=["eq0"], solver=sv), opts=o))
    t.append(dict(module="steps", fn="h_step", shape=dict(vars=["boxed"], cons=[], solver="Asymmetric"), opts=dict(o, sparse_cancel="fork")))
    t.append(dict(module="xform", fn="h_transform", shape=dict(vars=["boxed", "fixed"], cons=["ranged"], W=1, fmt="csr"), opts=dict(exp_window=(-4, 4))))
    t.append(dict(module="scal", fn="h_kkt", shape=dict(W0=3, n=1, m=1, unwind=3), opts=dict(frexp_window=(-8, 8), exp_window=(-24, 24), sqrt_model="lazy")))
    t.append(dict(module="twin", fn="h_observe", shape=dict(K=2, policy="DualNorm", vars=["boxed"], cons=[], level="DEBUG"), opts=dict(mulmode="uf")))
    # the real condition estimator driving each real linear-solver wrapper (report_rcond=True): every
    # call it makes must be one the wrapper accepts; and each wrapper under every call shape of the interface
    for kind in ("LU", "GMRES", "MINRES"):
        t.append(dict(module="linsol", fn="h_estimator", shape=dict(n=1, kind=kind), opts=dict(mulmode="uf", timeout_ms=10000, rng_nonzero=True)))
        if not q:
            t.append(dict(module="linsol", fn="h_estimator", shape=dict(n=1, kind=kind, its=2, fmt="csr"), opts=dict(mulmode="uf", timeout_ms=10000, rng_nonzero=True)))
    for kind in ("GMRES", "MINRES"):
        for trans in (False, True):
            t.append(dict(module="linsol", fn="h_krylov", shape=dict(n=2, kind=kind, trans=trans, guess=trans, fmt="csr"), opts={}))
    t.append(dict(module="linsol", fn="h_lu", shape=dict(n=2, fmt="csr"), opts={}))
    return t
