"""C13 array harness: Iterate / ActiveSet / ImplicitFunc / ScaledImplicitFunc / keep_rows
evaluated symbolically (polynomial real arithmetic) against dense definitions written here."""
from symx import boot, core
from symx.core import iff, implies, ite, land, lnot, lor, sabs, smax, smin

from . import common
from .common import INF, arr, dense, items

FUNCTIONS = [
    "pygradflow/iterate.py:Iterate.{aug_lag,aug_lag_deriv_x,aug_lag_deriv_y,aug_lag_deriv_xy,aug_lag_deriv_xx,aug_lag_violation,aug_lag_dual,bounds_dual,stat_res,bound_violation,cons_violation,total_res,is_feasible,locally_infeasible,dist,clipped}",
    "pygradflow/active_set.py:ActiveSet.__init__",
    "pygradflow/implicit_func.py:StepFunc.{compute_active_set_box,project_box,compute_active_set,apply_project_deriv}",
    "pygradflow/implicit_func.py:ImplicitFunc.{projection_initial,project,active_set_at_point,value_at,deriv,deriv_at}",
    "pygradflow/implicit_func.py:ScaledImplicitFunc.{__init__,projection_initial,project,active_set_at_point,value_at,deriv,deriv_at}",
    "pygradflow/util.py:keep_rows, norm_mult, norm_sq",
]


def mk(E, shape):
    P = boot.mod("params")
    user, spec = common.make_point_problem(E, shape["vars"], shape["cons"], fmt=shape.get("fmt", "coo"))
    active_tol = E.real("active_tol", lo=0)
    params = P.Params(active_tol=active_tol, validate_input=False)
    return user, spec, params


def point(E, spec, name, box=None):
    n, m = spec["n"], spec["m"]
    x = [E.real(f"{name}x{j}") for j in range(n)]
    y = [E.real(f"{name}y{i}") for i in range(m)]
    return x, y


def ref_point(spec, x, y, rho):
    n, m = spec["n"], spec["m"]
    r = spec["lookup"](arr(x))
    g, c, J = r["g"], r["c"], r["J"]
    mult = [y[i] + rho * c[i] for i in range(m)]
    dLx = [g[j] + sum((J[i][j] * mult[i] for i in range(m)), 0.0) for j in range(n)]
    Hm = spec["hess"](r, mult)
    Lxx = [[Hm[a][b] + rho * sum((J[i][a] * J[i][b] for i in range(m)), 0.0) for b in range(n)] for a in range(n)]
    return dict(rec=r, g=g, c=c, J=J, dLx=dLx, Lxx=Lxx, f=r["f"])


def eqv(E, got, want, oid):
    g = items(got)
    ok = len(g) == len(want)
    if ok:
        for a, b in zip(g, want):
            ok = land(ok, a == b)
    E.prove(ok, oid)


def eqm(E, got, want, oid):
    d = dense(got)
    ok = len(d) == len(want) and all(len(r) == len(w) for r, w in zip(d, want))
    if ok:
        for r, w in zip(d, want):
            for a, b in zip(r, w):
                ok = land(ok, a == b)
    E.prove(ok, oid)


def h_iterate(E, shape):
    """Iterate quantities at an arbitrary point (inside, on or outside the bounds)"""
    Iterate = boot.mod("iterate").Iterate
    user, spec, params = mk(E, shape)
    n, m = spec["n"], spec["m"]
    x, y = point(E, spec, "")
    rho = E.real("rho", lo=0, lo_strict=True)
    it = Iterate(user, params, arr(x), arr(y))
    R = ref_point(spec, x, y, rho)
    c, g, J = R["c"], R["g"], R["J"]
    E.prove(it.aug_lag(rho) == R["f"] + rho / 2.0 * sum((ci * ci for ci in c), 0.0) + sum((ci * yi for ci, yi in zip(c, y)), 0.0), "C13.aug_lag")
    eqv(E, it.aug_lag_deriv_x(rho), R["dLx"], "C13.aug_lag_deriv_x")
    eqv(E, it.aug_lag_deriv_y(), c, "C13.aug_lag_deriv_y")
    eqm(E, it.aug_lag_deriv_xy(), J, "C13.aug_lag_deriv_xy") if m else None
    eqm(E, it.aug_lag_deriv_xx(rho), R["Lxx"], "C13.aug_lag_deriv_xx")
    eqm(E, it.aug_lag_deriv_xx(0.0), ref_point(spec, x, y, 0.0)["Lxx"], "C13.aug_lag_deriv_xx")  # penalty-free Lagrangian Hessian
    # violations
    E.prove(it.cons_violation == common.inf_norm(c), "C13.cons_violation")
    lb, ub = spec["xl"], spec["xu"]
    bv = 0.0
    for j in range(n):
        if lb[j] != -INF:
            bv = smax(bv, smax(lb[j] - x[j], 0.0))
        if ub[j] != INF:
            bv = smax(bv, smax(x[j] - ub[j], 0.0))
    E.prove(it.bound_violation == bv, "C13.bound_violation")
    # bound multipliers and stationarity
    at = params.active_tol
    r0 = [-(g[j] + sum((J[i][j] * y[i] for i in range(m)), 0.0)) for j in range(n)]
    d = []
    for j in range(n):
        atl = sabs(x[j] - lb[j]) <= at if lb[j] != -INF else False
        atu = sabs(ub[j] - x[j]) <= at if ub[j] != INF else False
        d.append(ite(land(atl, atu), r0[j], ite(atu, smax(r0[j], 0.0), ite(atl, smin(r0[j], 0.0), 0.0))))
    eqv(E, it.bounds_dual, d, "C13.bounds_dual")
    sr = common.inf_norm([d[j] - r0[j] for j in range(n)])
    E.prove(it.stat_res == sr, "C13.stat_res")
    E.prove(it.total_res == smax(smax(common.inf_norm(c), bv), sr), "C13.total_res")
    tol = E.real("feas_tol", lo=0)
    E.prove(iff(it.is_feasible(tol), land(common.inf_norm(c) <= tol, bv <= tol)), "C13.is_feasible")
    # locally infeasible: violation > tol and box-projected J^T c small
    ltol = E.real("infeas_tol", lo=0)
    gr = []
    for j in range(n):
        gj = sum((J[i][j] * c[i] for i in range(m)), 0.0)
        atl = sabs(x[j] - lb[j]) <= at if lb[j] != -INF else False
        atu = sabs(ub[j] - x[j]) <= at if ub[j] != INF else False
        gr.append(ite(land(atl, atu), gj, ite(atl, smin(gj, 0.0), ite(atu, smax(gj, 0.0), gj))))
    want = land(common.inf_norm(c) > tol, common.inf_norm(gr) <= ltol)
    E.prove(iff(it.locally_infeasible(tol, ltol), want), "C13.locally_infeasible")
    # distance
    x2, y2 = point(E, spec, "o")
    other = Iterate(user, params, arr(x2), arr(y2))
    dd = it.dist(other)
    ss = sum(((a - b) * (a - b) for a, b in zip(x + y, x2 + y2)), 0.0)
    E.prove(land(dd >= 0, common.close(dd * dd, ss)), "C13.dist")
    # clipped: inside the box, identity if already inside
    cl = it.clipped()
    E.prove(common.in_box(items(cl.x), lb, ub), "C13.clipped_in_box")
    E.prove(common.eq_all(items(cl.x), [smin(smax(x[j], lb[j]), ub[j]) for j in range(n)]), "C13.clipped_is_projection")


def h_func(E, shape):
    """implicit-Euler residual function and its generalised Jacobian, standard and scaled"""
    Iterate = boot.mod("iterate").Iterate
    IF = boot.mod("implicit_func")
    user, spec, params = mk(E, shape)
    n, m = spec["n"], spec["m"]
    lb, ub = spec["xl"], spec["xu"]
    xh, yh = point(E, spec, "h")
    for j in range(n):  # the flow is started inside the box
        E.assume(land(lb[j] <= xh[j], xh[j] <= ub[j]))
    x, y = point(E, spec, "")
    rho = E.real("rho", lo=0, lo_strict=True)
    dt = E.real("dt", lo=0, lo_strict=True)
    lam = E.real("lamb", lo=0, lo_strict=True)
    E.assume(lam * dt == 1.0)
    if boot.MODE == "sym":
        dt.recip = lam
        lam.recip = dt
    else:
        lam = 1.0 / dt
    orig = Iterate(user, params, arr(xh), arr(yh))
    it = Iterate(user, params, arr(x), arr(y))
    R = ref_point(spec, x, y, rho)
    scaled = shape.get("scaled", False)
    func = (IF.ScaledImplicitFunc if scaled else IF.ImplicitFunc)(user, orig, dt)
    s = lam if scaled else 1.0  # the scaled function is lambda times the standard one
    # projection argument
    p_ref = [s * (xh[j] - dt * R["dLx"][j]) for j in range(n)]
    p = func.projection_initial(it, rho)
    eqv(E, p, p_ref, "C13.projection_argument")
    tau = E.real("tau", lo=0, lo_strict=True)
    pt = func.projection_initial(it, rho, tau)
    pt_ref = [s * ((1.0 - tau * lam) * x[j] + (tau * lam) * xh[j] - tau * R["dLx"][j]) for j in range(n)]
    eqv(E, pt, pt_ref, "C13.projection_argument_tau")
    # active set rule and projection
    act = func.compute_active_set(it, rho)
    slb = [s * l if l != -INF else -INF for l in lb]
    sub = [s * u if u != INF else INF for u in ub]
    act_ref = [lor(p_ref[j] < slb[j] - 1e-8, p_ref[j] > sub[j] + 1e-8) for j in range(n)]
    E.prove(land(*[iff(a, b) for a, b in zip(items(act), act_ref)]), "C13.active_set_rule")
    np = boot.np
    if shape.get("default_active_set"):
        # no active set given: the function uses the one of its own rule
        val = func.value_at(it, rho)
        projd = [ite(act_ref[j], smin(smax(p_ref[j], slb[j]), sub[j]), p_ref[j]) for j in range(n)]
        if scaled:
            vref = [lam * x[j] - projd[j] for j in range(n)] + [-(lam * y[i] - (lam * yh[i] + R["c"][i])) for i in range(m)]
        else:
            vref = [x[j] - projd[j] for j in range(n)] + [y[i] - (yh[i] + dt * R["c"][i]) for i in range(m)]
        eqv(E, val, vref, "C13.residual_value_default_active_set")
        Dd = func.deriv_at(it, rho)
        refd = [[0.0] * (n + m) for _ in range(n + m)]
        for a in range(n):
            for b in range(n):
                base = (lam if scaled else 1.0) if a == b else 0.0
                refd[a][b] = base + ite(act_ref[a], 0.0, (1.0 if scaled else dt) * R["Lxx"][a][b])
            for i in range(m):
                refd[a][n + i] = ite(act_ref[a], 0.0, (1.0 if scaled else dt) * R["J"][i][a])
        for i in range(m):
            for b in range(n):
                refd[n + i][b] = -(1.0 if scaled else dt) * R["J"][i][b]
            refd[n + i][n + i] = lam if scaled else 1.0
        eqm(E, Dd, refd, "C13.generalised_jacobian_default_active_set")
        return
    # arbitrary active set (symbolic mask) for value and derivative
    mask = [E.bool(f"act{j}") for j in range(n)]
    maska = np.array(mask, dtype=bool)
    try:
        val = func.value_at(it, rho, maska)
    except AssertionError:
        raise
    proj = [ite(mask[j], smin(smax(p_ref[j], slb[j]), sub[j]), p_ref[j]) for j in range(n)]
    if scaled:
        val_ref = [lam * x[j] - proj[j] for j in range(n)] + [-(lam * y[i] - (lam * yh[i] + R["c"][i])) for i in range(m)]
    else:
        val_ref = [x[j] - proj[j] for j in range(n)] + [y[i] - (yh[i] + dt * R["c"][i]) for i in range(m)]
    eqv(E, val, val_ref, "C13.residual_value")
    pr = func.project(arr(p_ref), maska)
    E.prove(land(*[implies(mask[j], land(slb[j] <= v, v <= sub[j])) for j, v in enumerate(items(pr))]), "C13.projection_keeps_active_components_in_box")
    E.prove(land(*[implies(lnot(mask[j]), v == p_ref[j]) for j, v in enumerate(items(pr))]), "C13.projection_identity_on_inactive")
    # generalised Jacobian
    D = func.deriv_at(it, rho, maska)
    Lxx, J = R["Lxx"], R["J"]
    ref = [[0.0] * (n + m) for _ in range(n + m)]
    for a in range(n):
        for b in range(n):
            base = (lam if scaled else 1.0) if a == b else 0.0
            ref[a][b] = base + ite(mask[a], 0.0, (1.0 if scaled else dt) * Lxx[a][b])
        for i in range(m):
            ref[a][n + i] = ite(mask[a], 0.0, (1.0 if scaled else dt) * J[i][a])
    for i in range(m):
        for b in range(n):
            ref[n + i][b] = -(1.0 if scaled else dt) * J[i][b]
        ref[n + i][n + i] = lam if scaled else 1.0
    eqm(E, D, ref, "C13.generalised_jacobian")
    # the evaluation is repeatable: a second active set on the same iterate gives its own definition,
    # and the iterate's cached derivatives still equal theirs
    mask2 = [E.bool(f"act2_{j}") for j in range(n)]
    D2 = func.deriv_at(it, rho, np.array(mask2, dtype=bool))
    ref2 = [row[:] for row in ref]
    for a in range(n):
        for b in range(n):
            base = (lam if scaled else 1.0) if a == b else 0.0
            ref2[a][b] = base + ite(mask2[a], 0.0, (1.0 if scaled else dt) * Lxx[a][b])
        for i in range(m):
            ref2[a][n + i] = ite(mask2[a], 0.0, (1.0 if scaled else dt) * J[i][a])
    eqm(E, D2, ref2, "C13.generalised_jacobian_second_active_set")
    if m:
        eqm(E, it.aug_lag_deriv_xy(), J, "C13.derivatives_unchanged_by_evaluation")
    eqm(E, it.aug_lag_deriv_xx(rho), Lxx, "C13.derivatives_unchanged_by_evaluation")
    eqv(E, it.aug_lag_deriv_x(rho), R["dLx"], "C13.derivatives_unchanged_by_evaluation")


def h_keep_rows(E, shape):
    util = boot.mod("util")
    np = boot.np
    m, n = shape["m"], shape["n"]
    ent = [(i, j, E.real(f"a{i}_{j}")) for i in range(m) for j in range(n) if (i + j) % 2 == 0 or shape.get("full")]
    if shape.get("dup"):
        ent.append((0, 0, E.real("dup")))
    A = common.make_sparse(shape.get("fmt", "coo"), (m, n), ent)
    mask = [E.bool(f"keep{i}") for i in range(m)]
    B = util.keep_rows(A, np.array(mask, dtype=bool))
    d0 = dense(A)
    ref = [[ite(mask[i], d0[i][j], 0.0) for j in range(n)] for i in range(m)]
    eqm(E, B, ref, "C13.keep_rows")
