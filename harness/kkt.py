"""C01 harnesses.

h_transfer   KKT transfer lemma: for an arbitrary internal iterate (in the internal box) whose
             total residual is <= opt_tol, the restored (x, y, d) satisfy the user's KKT
             conditions with the tolerances the statement prescribes (table in DESIGN.md §6).
h_integ      IntegrationSolver.solve from entry to its first optimality gate: if it declares
             Optimal, the same user-level conditions must hold for the returned point.
"""
from symx import boot, core
from symx.core import Abort, iff, implies, ite, land, lnot, lor, sabs, smax, smin

from . import common, xform
from .common import INF, arr, dense, items
from .xform import ld

FUNCTIONS = [
    "pygradflow/iterate.py:Iterate.{cons,cons_jac,obj_grad,active_set,bounds_dual,cons_violation,bound_violation,stat_res,total_res}",
    "pygradflow/active_set.py:ActiveSet.__init__",
    "pygradflow/transform.py:Transformation.{trans_problem,restore_sol}",
    "pygradflow/cons_problem.py:ConstrainedProblem.{__init__,create_slacks,cons,cons_jac,obj_grad,restore_sol}",
    "pygradflow/scale.py:ScaledProblem.{__init__,cons,cons_jac,obj_grad}, Scaling.unscale_*",
    "pygradflow/eval.py:ValidatingEvaluator.*",
]
INTEG_FUNCTIONS = [
    "pygradflow/integration/integration_solver.py:IntegrationSolver.{solve (to the first optimality gate and result assembly),create_filter,_check_filter,_check_bounds}",
    "pygradflow/integration/restricted_flow.py:RestrictedFlow.{__init__,rhs,residuum}",
    "pygradflow/integration/flow.py:Flow.{isclose,split_states,aug_lag_deriv_x,neg_aug_lag_deriv_x,rhs_deriv_x}",
    "pygradflow/integration/problem_switches.py:ProblemSwitches.__init__",
]


def concretize(E, w, lo, hi):
    """decide a symbolic integer by forking (one path per value)"""
    if isinstance(w, int):
        return w
    for k in range(lo, hi + 1):
        if bool(w == k):
            return k
    raise Abort()


def user_kkt(E, spec, x, y, d, vals, tol, atol, vw, cw, ow, pre):
    """the statement's conditions for the user's problem at the returned x, y, d.
    vals = dict(g, c, J) are the user's functions at x."""
    n, m = spec["n"], spec["m"]
    xl, xu, cl, cu = spec["xl"], spec["xu"], spec["cl"], spec["cu"]
    g, c, J = vals["g"], vals["c"], vals["J"]
    E.prove(common.in_box(x, xl, xu), pre + "variable_bounds_hold_exactly")
    for i in range(m):
        t = ld(tol, -cw[i])
        E.prove(land(cl[i] - t <= c[i] if cl[i] != -INF else True, c[i] <= cu[i] + t if cu[i] != INF else True), pre + "constraints_feasible_to_tolerance")
    for j in range(n):
        r = g[j] + sum((J[i][j] * y[i] for i in range(m)), 0.0) + d[j]
        E.prove(sabs(r) <= ld(tol, vw[j] - ow), pre + "stationarity_to_tolerance")
    for i in range(m):
        kind = spec["cons_kinds"][i]
        if kind in ("eq0", "eqb"):
            continue
        t = ld(tol, cw[i] - ow)
        t2 = ld(tol + atol, -cw[i])
        up = c[i] >= cu[i] - t2 if cu[i] != INF else False
        lo = c[i] <= cl[i] + t2 if cl[i] != -INF else False
        E.prove(implies(y[i] > t, up), pre + "multiplier_positive_only_at_upper_bound")
        E.prove(implies(y[i] < -t, lo), pre + "multiplier_negative_only_at_lower_bound")
    for j in range(n):
        t = ld(atol, -vw[j])
        at_l = sabs(x[j] - xl[j]) <= t if xl[j] != -INF else False
        at_u = sabs(xu[j] - x[j]) <= t if xu[j] != INF else False
        E.prove(implies(d[j] != 0, lor(at_l, at_u)), pre + "bound_multiplier_nonzero_only_at_active_bound")
        E.prove(implies(land(d[j] > 0, lnot(at_u)), False), pre + "bound_multiplier_sign")
        E.prove(implies(land(d[j] < 0, lnot(at_l)), False), pre + "bound_multiplier_sign")


def h_transfer(E, shape):
    Iterate = boot.mod("iterate").Iterate
    P = boot.mod("params")
    np = boot.np
    n, m = len(shape["vars"]), len(shape["cons"])
    W = shape.get("W", 0)
    user, spec = common.make_point_problem(E, shape["vars"], shape["cons"], fmt=shape.get("fmt", "coo"))
    tol = E.real("opt_tol", lo=0, lo_strict=True)
    atol = E.real("active_tol", lo=0)
    kw = {}
    vw, cw, ow = [0] * n, [0] * m, 0
    if W:
        vws = [E.int(f"vw{j}", -W, W) for j in range(n)]
        cws = [E.int(f"cw{i}", -W, W) for i in range(m)]
        ows = E.int("ow", -W, W)
        vw = [concretize(E, w, -W, W) for w in vws]
        cw = [concretize(E, w, -W, W) for w in cws]
        ow = concretize(E, ows, -W, W)
        Scaling = boot.mod("scale").Scaling
        sc = Scaling(np.array(vw, dtype=int) if n else np.zeros((0,), dtype=int), np.array(cw, dtype=int) if m else np.zeros((0,), dtype=int), ow)
        kw = dict(scaling=sc, scaling_type=P.ScalingType.Custom)
    params = P.Params(opt_tol=tol, active_tol=atol, **kw)
    T = boot.mod("transform").Transformation(user, params)
    tp = T.trans_problem
    N = tp.num_vars
    lb, ub = items(tp.var_lb), items(tp.var_ub)
    x = []
    for j in range(N):
        v = E.real(f"xi{j}")
        E.assume(land(lb[j] <= v, v <= ub[j]))  # internal box: discharged by C05
        x.append(v)
    y = [E.real(f"yi{i}") for i in range(m)]
    it = Iterate(tp, params, arr(x), arr(y), T.evaluator)
    E.assume(it.total_res <= tol)
    E.reach("C01.transfer.reachable")
    (xr, yr, dr) = T.restore_sol(it.x, it.y, it.bounds_dual)
    xr, yr, dr = items(xr), items(yr), items(dr)
    E.prove(len(xr) == n and len(yr) == m and len(dr) == n, "C01.transfer.shapes")
    rec = spec["lookup"](arr(xr))
    # the user's functions at the returned point are the ones the internal residual was built from
    E.prove(len(spec["calls"]) > 0 and all(len(c[1]) == n for c in spec["calls"]), "C01.transfer.shapes")
    vals = dict(g=rec["g"], c=rec["c"], J=rec["J"])
    user_kkt(E, spec, xr, yr, dr, vals, tol, atol, vw, cw, ow, "C01.transfer.")


def h_integ(E, shape):
    """IntegrationSolver.solve up to (and including) its first optimality gate"""
    IS = boot.mod("integration.integration_solver")
    P = boot.mod("params")
    np = boot.np
    n, m = len(shape["vars"]), len(shape["cons"])
    user, spec = common.make_point_problem(E, shape["vars"], shape["cons"], fmt=shape.get("fmt", "coo"))
    tol = E.real("opt_tol", lo=0, lo_strict=True)
    atol = E.real("active_tol", lo=0)
    rho = E.real("rho", lo=0, lo_strict=True)
    # Flow.isclose uses a fixed 4*eps absolute/relative tolerance for 'at a bound' while the
    # returned bound multipliers use active_tol: the two agree for active_tol >= 1e-10 and
    # bounds of magnitude <= 1e3 (the default active_tol is 1e-8); smaller values are outside.
    E.assume(atol >= 1e-10)
    E.assume(tol >= 1e-10)  # likewise: a gradient entry below 4*eps counts as zero for the flow filter
    for b in spec["xl"] + spec["xu"] + spec["cl"] + spec["cu"]:
        if b not in (INF, -INF):
            E.assume(land(b >= -1000.0, b <= 1000.0))
    params = P.Params(opt_tol=tol, active_tol=atol, rho=rho, iteration_limit=shape.get("limit"))
    boot.mod("timer").time = boot.Clock(E)
    solver = IS.IntegrationSolver(user, params)

    def stop(*a, **k):
        raise Abort()  # the integration itself (scipy BDF + event root finding) is outside the claim

    solver.perform_integration = stop
    x0 = []
    for j in range(n):
        v = E.real(f"x0_{j}")
        E.assume(land(spec["xl"][j] <= v, v <= spec["xu"][j]))
        x0.append(v)
    y0 = [E.real(f"y0_{i}") for i in range(m)]
    try:
        res = solver.solve(arr(x0), arr(y0))
    except Exception as e:
        if "Degenerate bound" in str(e) and type(e) is Exception:
            return
        raise
    Status = boot.mod("status").SolverStatus
    if res.status != Status.Optimal:
        return
    E.reach("C01.integration.optimal_at_start_reachable")
    xr, yr, dr = items(res.x), items(res.y), items(res.d)
    rec = spec["lookup"](arr(xr))
    vals = dict(g=rec["g"], c=rec["c"], J=rec["J"])
    user_kkt(E, spec, xr, yr, dr, vals, tol, atol, [0] * n, [0] * m, 0, "C01.integration.")


def h_events(E, shape):
    """C01 (flow-integration solver): the event functions that decide when a variable pinned at a
    bound is released and when a free one hits a bound.  For an arbitrary filter and state, each
    event created by ProblemSwitches.create_event_triggers is evaluated at a second arbitrary state
    and compared with its definition: the bound events x_j - l_j / x_j - u_j of the free variables,
    and for every pinned (not fixed) variable j exactly one release event that watches component j
    of the negative augmented-Lagrangian gradient with the direction of its bound."""
    IS = boot.mod("integration.integration_solver")
    PS = boot.mod("integration.problem_switches")
    RF = boot.mod("integration.restricted_flow")
    P = boot.mod("params")
    np = boot.np
    n, m = len(shape["vars"]), len(shape["cons"])
    user, spec = common.make_point_problem(E, shape["vars"], shape["cons"], fmt=shape.get("fmt", "coo"))
    rho = E.real("rho", lo=0, lo_strict=True)
    for b in spec["xl"] + spec["xu"]:
        if b not in (INF, -INF):
            E.assume(land(b >= -1000.0, b <= 1000.0))
    params = P.Params(rho=rho)
    # the objects IntegrationSolver.solve builds before it integrates (equality rows only: no slacks,
    # the internal problem has the user's variables)
    T0 = boot.mod("transform").Transformation(user, params)
    flow = boot.mod("integration.flow").Flow(T0.trans_problem, params, T0.evaluator)
    lb, ub = spec["xl"], spec["xu"]
    # current state: free variables strictly inside, pinned ones exactly at one of their bounds
    filt = [bool(E.bool(f"free{j}")) for j in range(n)]
    x, side = [], []
    for j in range(n):
        v = E.real(f"x{j}")
        if filt[j]:
            E.assume(land(lb[j] <= v, v <= ub[j]))
            side.append(None)
        else:
            if lb[j] == -INF and ub[j] == INF:
                raise Abort()  # a variable without bounds is never pinned
            at_l = bool(E.bool(f"pin_low{j}")) if (lb[j] != -INF and ub[j] != INF) else lb[j] != -INF
            E.assume(v == (lb[j] if at_l else ub[j]))
            if lb[j] != -INF and ub[j] != INF:
                E.assume(ub[j] - lb[j] >= 1.0)  # not a fixed variable (those get no release event)
            side.append(at_l)
        x.append(v)
    y = [E.real(f"y{i}") for i in range(m)]
    rf = RF.RestrictedFlow(flow, np.array(filt, dtype=bool))
    events = rf.create_event_triggers(np.array(x + y), rho)
    # a second, arbitrary state at which the events are evaluated
    x2 = [E.real(f"z{j}") for j in range(n)]
    y2 = [E.real(f"w{i}") for i in range(m)]
    z2 = np.array(x2 + y2)
    rec = spec["lookup"](arr(x2))
    g, c, J = rec["g"], rec["c"], rec["J"]
    ngrad = [-(g[j] + sum((J[i][j] * (rho * c[i] + y2[i]) for i in range(m)), 0.0)) for j in range(n)]
    T = PS.TriggerType
    by = {}
    for ev in events:
        by.setdefault(ev.type, []).append(ev)
    rel = by.get(T.GRAD_FIXED, [])
    pinned = [j for j in range(n) if not filt[j]]
    E.prove(sorted(ev.index for ev in rel) == pinned, "C01.integration.one_release_event_per_pinned_variable")
    for ev in rel:
        j = ev.index
        E.prove(ev(0.0, z2) == ngrad[j], "C01.integration.release_event_watches_its_own_gradient_component", info=dict(index=j))
        E.prove(ev.direction == (1.0 if side[j] else -1.0), "C01.integration.release_event_direction_matches_the_bound")
    for ev in by.get(T.LB, []):
        j = ev.index
        E.prove(filt[j] and lb[j] != -INF and bool(ev(0.0, z2) == x2[j] - lb[j]) and ev.direction == -1.0, "C01.integration.bound_events_watch_their_own_variable")
    for ev in by.get(T.UB, []):
        j = ev.index
        E.prove(filt[j] and ub[j] != INF and bool(ev(0.0, z2) == x2[j] - ub[j]) and ev.direction == 1.0, "C01.integration.bound_events_watch_their_own_variable")
    E.prove(sorted(ev.index for ev in by.get(T.LB, [])) == [j for j in range(n) if filt[j] and lb[j] != -INF] and sorted(ev.index for ev in by.get(T.UB, [])) == [j for j in range(n) if filt[j] and ub[j] != INF], "C01.integration.bound_events_watch_their_own_variable")
    E.prove(all(getattr(ev, "terminal", False) for ev in events), "C01.integration.events_are_terminal")
