"""Shared harness pieces: the uninterpreted user problem, bounds shapes, helpers that work in
both modes (symbolic / concrete replay)."""
import sys

from symx import boot, core
from symx.core import land, lnot, lor, implies, iff, ite, smax, smin, sabs

INF = float("inf")

VAR_KINDS = ["free", "lower", "upper", "boxed", "fixed"]
CONS_KINDS = ["eq0", "eqb", "ge", "le", "ranged"]


def bounds(E, kinds, prefix):
    """(lb, ub) lists for the given kinds; finite bounds are symbolic reals, infinite ones are
    concrete +-inf (so the real code's inf handling is the real numpy's, not a model)"""
    lb, ub = [], []
    for j, k in enumerate(kinds):
        if k == "free":
            lb.append(-INF)
            ub.append(INF)
        elif k in ("lower", "ge"):
            lb.append(E.real(f"{prefix}l{j}"))
            ub.append(INF)
        elif k in ("upper", "le"):
            lb.append(-INF)
            ub.append(E.real(f"{prefix}u{j}"))
        elif k in ("boxed", "ranged"):
            l = E.real(f"{prefix}l{j}")
            u = E.real(f"{prefix}u{j}")
            E.assume(l < u)
            lb.append(l)
            ub.append(u)
        elif k in ("fixed", "eqb"):
            l = E.real(f"{prefix}l{j}")
            if k == "eqb":
                E.assume(l != 0.0)
            lb.append(l)
            ub.append(l)
        elif k == "eq0":
            lb.append(0.0)
            ub.append(0.0)
        else:
            raise ValueError(k)
    return lb, ub


def in_box(x, lb, ub):
    c = True
    for v, l, u in zip(x, lb, ub):
        c = land(c, l <= v, v <= u)
    return c


def arr(items, dtype=None):
    np = boot.np
    if dtype is None:
        return np.array(list(items), dtype=float) if len(items) else np.zeros((0,))
    return np.array(list(items), dtype=dtype)


def items(a):
    """python list of the elements of an array in either mode"""
    if boot.MODE == "sym":
        return list(a.items)
    return [v for v in a.tolist()] if hasattr(a, "tolist") else list(a)


def dense(mat):
    """list of rows of a sparse or dense matrix in either mode"""
    if hasattr(mat, "toarray"):
        mat = mat.toarray()
    if boot.MODE == "sym":
        m, n = mat.shape
        it = mat.items
        return [[it[i * n + j] for j in range(n)] for i in range(m)]
    return [[v for v in row] for row in mat.tolist()]


def make_sparse(fmt, shape, entries, dtype=None):
    """sparse matrix with the given stored entries [(i, j, v), ...] in format fmt; duplicates and
    explicit zeros are kept for COO"""
    np, sp = boot.np, boot.sp
    data = arr([e[2] for e in entries]) if dtype is None else np.array([e[2] for e in entries], dtype=dtype)
    rows = np.array([e[0] for e in entries], dtype=int)
    cols = np.array([e[1] for e in entries], dtype=int)
    m = sp.sparse.coo_matrix((data, (rows, cols)), shape=shape)
    if fmt == "csr":
        return m.tocsr()
    if fmt == "csc":
        return m.tocsc()
    return m


class UFProblem:
    """mixin body for a pygradflow Problem whose callbacks are uninterpreted functions of the
    evaluation point (congruence makes 'evaluated at the wrong point / with the wrong
    multiplier' visible to the solver).  Created through make_problem()."""


def make_problem(E, var_kinds, cons_kinds, fmt="coo", jac_pattern=None, hess_pattern=None, policy="fresh", tag="", faults=None, log=None, point_faults=None, int_matrices=False):
    """returns (problem, spec).  spec carries the symbolic bounds and the call log."""
    Problem = boot.mod("problem").Problem
    np = boot.np
    n, m = len(var_kinds), len(cons_kinds)
    xl, xu = bounds(E, var_kinds, tag + "x")
    cl, cu = bounds(E, cons_kinds, tag + "c")
    if jac_pattern is None:
        jac_pattern = [(i, j) for i in range(m) for j in range(n)]
    if hess_pattern is None:
        hess_pattern = [(i, j) for i in range(n) for j in range(n)]
    calls = log if log is not None else []
    cache = {}
    handed = []

    def caller():
        f = sys._getframe(2)
        chain = []
        while f is not None and len(chain) < 3:
            fn = f.f_code.co_filename
            if "/pygradflow/" in fn and not fn.endswith(("scale.py", "cons_problem.py", "eval.py")):
                chain.append(fn.split("/pygradflow/", 1)[1] + ":" + f.f_code.co_name)
            f = f.f_back
        return "<".join(chain) if chain else "?"

    def flag(kind, v):
        if point_faults is not None:
            xs = calls[-1][1]
            b = point_faults(kind, xs)
            if b is False:
                return v
            if boot.MODE == "sym":
                return core.SR(core.zexpr(v), bad=core._be(b))
            return float("nan") if b else v
        if faults is None:
            return v
        return faults(kind, v, len(calls))

    def memo(kind, key, build):
        if policy == "fresh":
            return build()
        k = (kind,) if policy == "cached" else (kind, key)
        if k not in cache:
            cache[k] = build()
            handed.extend(snapshot([(f"{kind}@{len(handed)}", cache[k])]))
        return cache[k]

    def pkey(x, y=None):
        its = items(x) + (items(y) if y is not None else [])
        return tuple(str(core.zexpr(v)) if boot.MODE == "sym" else repr(float(v)) for v in its)

    const = policy == "cached"  # constant Jacobian / Hessian returned as one cached object

    def _integral(v):
        # callbacks returning integer-dtype matrices (as tests/pygradflow/tame.py does): integer-valued entries
        if int_matrices and boot.MODE == "sym":
            E.assume(core.SB(core.z3.IsInt(core.zexpr(v))))
        return v

    mdt = int if int_matrices else None

    def Jf(i, j, xs):
        return _integral(E.uf(f"{tag}J{i}_{j}") if const else E.uf(f"{tag}J{i}_{j}", *xs))

    def Hf(a, b, xs, ys):
        return _integral(E.uf(f"{tag}H{a}_{b}") if const else E.uf(f"{tag}H{a}_{b}", *xs, *ys))

    spec = dict(jac_pattern=jac_pattern, hess_pattern=hess_pattern)  # the CURRENT patterns (a harness may switch them between evaluation points)

    class P(Problem):
        def __init__(self):
            kw = dict(cons_lb=arr(cl), cons_ub=arr(cu)) if m else {}
            super().__init__(arr(xl), arr(xu), **kw)

        def obj(self, x):
            xs = items(x)
            calls.append(("obj", xs, None, caller()))
            return flag("obj", E.uf(tag + "f", *xs))

        def obj_grad(self, x):
            xs = items(x)
            calls.append(("obj_grad", xs, None, caller()))
            if const:
                return arr([flag("obj_grad", E.uf(f"{tag}g{j}", *xs)) for j in range(n)])
            return memo("g", pkey(x), lambda: arr([flag("obj_grad", E.uf(f"{tag}g{j}", *xs)) for j in range(n)]))

        def cons(self, x):
            xs = items(x)
            calls.append(("cons", xs, None, caller()))
            if const:
                return arr([flag("cons", E.uf(f"{tag}c{i}", *xs)) for i in range(m)])
            return memo("c", pkey(x), lambda: arr([flag("cons", E.uf(f"{tag}c{i}", *xs)) for i in range(m)]))

        def cons_jac(self, x):
            xs = items(x)
            calls.append(("cons_jac", xs, None, caller()))
            return memo("J", pkey(x), lambda: make_sparse(fmt, (m, n), [(i, j, flag("cons_jac", Jf(i, j, xs))) for (i, j) in spec["jac_pattern"]], dtype=mdt))

        def lag_hess(self, x, y):
            xs, ys = items(x), items(y)
            calls.append(("lag_hess", xs, ys, caller()))

            def build():
                ent = []
                for (i, j) in spec["hess_pattern"]:
                    a, b = (i, j) if i <= j else (j, i)
                    ent.append((i, j, flag("lag_hess", Hf(a, b, xs, ys))))
                return make_sparse(fmt, (n, n), ent, dtype=mdt)

            return memo("H", pkey(x, y), build)

    p = P()
    spec.update(n=n, m=m, xl=xl, xu=xu, cl=cl, cu=cu, calls=calls, var_kinds=var_kinds, cons_kinds=cons_kinds, tag=tag, Jf=Jf, Hf=Hf, policy=policy, cache=cache, handed=handed)
    return p, spec


def eq_ext(a, b):
    if a in (INF, -INF) or b in (INF, -INF):
        return (not core.is_sym(a)) and (not core.is_sym(b)) and a == b
    return a == b


def snapshot(objs):
    out = []
    for name, o in objs:
        if hasattr(o, "toarray") or hasattr(o, "tocoo"):
            st = [(name + ".data", o.data)]
            for attr in ("row", "col", "indices", "indptr"):
                if hasattr(o, attr):
                    try:
                        st.append((name + "." + attr, getattr(o, attr)))
                    except AttributeError:
                        pass
            for nm, a in st:
                out.append((nm, a, list(items(a)), o, nm.rsplit(".", 1)[1], str(a.dtype)))
        else:
            out.append((name, o, list(items(o)), None, None, str(getattr(o, "dtype", ""))))
    return out


def check_snapshots(E, snaps, oid):
    for name, a, before, owner, attr, dtype in snaps:
        if owner is not None:
            # the owner still holds the very array it held (not a converted / rebuilt replacement)
            a_now = getattr(owner, attr)
            if a_now is not a:
                # replaced: what the caller now sees must still be the same data (type and values)
                okr = str(a_now.dtype) == dtype and len(items(a_now)) == len(before)
                if okr:
                    for x, y in zip(items(a_now), before):
                        okr = land(okr, eq_ext(x, y))
                E.prove(okr, oid, info=name + " (array object replaced)")
                continue
        now = items(a)
        ok = len(now) == len(before) and str(getattr(a, "dtype", "")) == dtype
        if ok:
            for x, y in zip(now, before):
                ok = land(ok, eq_ext(x, y))
        E.prove(ok, oid, info=name)


def eq_all(a, b):
    """conjunction of element-wise equalities of two same-length python lists"""
    if len(a) != len(b):
        return False
    c = True
    for x, y in zip(a, b):
        c = land(c, x == y)
    return c


def inf_norm(vs):
    r = 0.0
    for v in vs:
        r = smax(r, sabs(v))
    return r


def make_point_problem(E, var_kinds, cons_kinds, fmt="coo", tag="", memo=False):
    """Problem for the polynomial (NRA) harnesses: no uninterpreted functions.  Every distinct
    evaluation point (syntactic identity of its coordinates) gets fresh symbols f, g, c, J and a
    Lagrangian Hessian with the structure every Lagrangian Hessian has,
    H(x, y) = H0(x) + sum_i y_i H_i(x)  (symmetric symbol matrices), so the multiplier at which
    the code requests the Hessian is visible as a different polynomial."""
    Problem = boot.mod("problem").Problem
    n, m = len(var_kinds), len(cons_kinds)
    xl, xu = bounds(E, var_kinds, tag + "x")
    cl, cu = bounds(E, cons_kinds, tag + "c")
    points = []
    calls = []

    def key(x):
        its = items(x)
        if boot.MODE == "sym":
            return [core.zexpr(v) for v in its]
        return [float(v) for v in its]

    def lookup(x):
        k = key(x)
        for pk, rec in points:
            if len(pk) == len(k) and all((a.eq(b) if boot.MODE == "sym" else a == b) for a, b in zip(pk, k)):
                return rec
        p = len(points)
        rec = dict(
            id=p,
            f=E.real(f"{tag}f@{p}"),
            g=[E.real(f"{tag}g{j}@{p}") for j in range(n)],
            c=[E.real(f"{tag}c{i}@{p}") for i in range(m)],
            J=[[E.real(f"{tag}J{i}_{j}@{p}") for j in range(n)] for i in range(m)],
            H=[[[None] * n for _ in range(n)] for _ in range(m + 1)],
        )
        for q in range(m + 1):
            for a in range(n):
                for b in range(a, n):
                    v = E.real(f"{tag}H{q}_{a}_{b}@{p}")
                    rec["H"][q][a][b] = v
                    rec["H"][q][b][a] = v
        if boot.MODE == "sym" and getattr(E, "point_consistency", False):
            # the callbacks are functions: a point that coincides in value with an earlier one (though
            # written differently) has the earlier one's values (optional: without it the harness only
            # over-approximates -- more counterexample candidates, never fewer)
            xs = items(x)
            for pk, old in points:
                if len(pk) != len(k):
                    continue
                same = core.land(*[core.SB(a == b) for a, b in zip(pk, k)])
                vals_new = [rec["f"]] + rec["g"] + rec["c"] + [v for row in rec["J"] for v in row] + [rec["H"][q][a][b] for q in range(m + 1) for a in range(n) for b in range(a, n)]
                vals_old = [old["f"]] + old["g"] + old["c"] + [v for row in old["J"] for v in row] + [old["H"][q][a][b] for q in range(m + 1) for a in range(n) for b in range(a, n)]
                E.assume(core.implies(same, core.land(*[a == b for a, b in zip(vals_new, vals_old)])))
        points.append((k, rec))
        return rec

    def hess(rec, ys):
        return [[rec["H"][0][a][b] + sum((ys[i] * rec["H"][i + 1][a][b] for i in range(m)), 0.0) for b in range(n)] for a in range(n)]

    class P(Problem):
        def __init__(self):
            kw = dict(cons_lb=arr(cl), cons_ub=arr(cu)) if m else {}
            super().__init__(arr(xl), arr(xu), **kw)

        def obj(self, x):
            calls.append(("obj", items(x), None))
            return lookup(x)["f"]

        def obj_grad(self, x):
            calls.append(("obj_grad", items(x), None))
            return arr(lookup(x)["g"])

        def cons(self, x):
            calls.append(("cons", items(x), None))
            return arr(lookup(x)["c"])

        def cons_jac(self, x):
            calls.append(("cons_jac", items(x), None))
            r = lookup(x)
            if memo and "Jobj" in r:
                return r["Jobj"]  # the caller keeps (memoises) the matrix it returned for this point
            J = make_sparse(fmt, (m, n), [(i, j, r["J"][i][j]) for i in range(m) for j in range(n)])
            if memo:
                r["Jobj"] = J
                handed.extend(snapshot([(f"J@{r['id']}", J)]))
            return J

        def lag_hess(self, x, y):
            calls.append(("lag_hess", items(x), items(y)))
            r = lookup(x)
            Hm = hess(r, items(y))
            H = make_sparse(fmt, (n, n), [(a, b, Hm[a][b]) for a in range(n) for b in range(n)])
            if memo:
                # every returned Hessian object stays with the caller (kept for later inspection)
                handed.extend(snapshot([(f"H@{r['id']}#{len(handed)}", H)]))
            return H

    handed = []
    p = P()
    spec = dict(n=n, m=m, xl=xl, xu=xu, cl=cl, cu=cu, calls=calls, lookup=lookup, hess=hess, var_kinds=var_kinds, cons_kinds=cons_kinds, tag=tag, handed=handed)
    return p, spec


def make_qp_problem(E, var_kinds, m, fmt="coo"):
    """f = 1/2 x'Qx + q'x,  c = Ax - b (rows posed as equalities c(x) = 0), all data symbolic"""
    Problem = boot.mod("problem").Problem
    n = len(var_kinds)
    xl, xu = bounds(E, var_kinds, "x")
    Q = [[None] * n for _ in range(n)]
    for a in range(n):
        for b in range(a, n):
            v = E.real(f"Q{a}_{b}")
            Q[a][b] = v
            Q[b][a] = v
    q = [E.real(f"q{j}") for j in range(n)]
    A = [[E.real(f"A{i}_{j}") for j in range(n)] for i in range(m)]
    bb = [E.real(f"b{i}") for i in range(m)]

    class P(Problem):
        def __init__(self):
            kw = dict(cons_lb=arr([0.0] * m), cons_ub=arr([0.0] * m)) if m else {}
            super().__init__(arr(xl), arr(xu), **kw)

        def obj(self, x):
            xs = items(x)
            return sum((0.5 * xs[a] * Q[a][b] * xs[b] for a in range(n) for b in range(n)), 0.0) + sum((q[j] * xs[j] for j in range(n)), 0.0)

        def obj_grad(self, x):
            xs = items(x)
            return arr([sum((Q[a][b] * xs[b] for b in range(n)), 0.0) + q[a] for a in range(n)])

        def cons(self, x):
            xs = items(x)
            return arr([sum((A[i][j] * xs[j] for j in range(n)), 0.0) - bb[i] for i in range(m)])

        def cons_jac(self, x):
            return make_sparse(fmt, (m, n), [(i, j, A[i][j]) for i in range(m) for j in range(n)])

        def lag_hess(self, x, y):
            return make_sparse(fmt, (n, n), [(a, b, Q[a][b]) for a in range(n) for b in range(n)])

    return P(), dict(n=n, m=m, xl=xl, xu=xu, Q=Q, q=q, A=A, b=bb)


def close(a, b):
    """equality that tolerates rounding when the harness is replayed on floats"""
    if boot.MODE == "sym":
        return a == b
    return abs(a - b) <= 1e-9 * (1.0 + abs(b))
