"""C16  The penalty parameter is positive and never decreases (L1 loop + policy step)."""
from . import loop, twin

OWNED = ["C16."]
REQUIRED = [
    "C16.rho_positive",
    "C16.rho_monotone",
    "C16.constant_policy_never_changes",
    "C16.dualnorm_bounded_by_multiplier_norm",
    "C16.dualnorm_at_most_tenfold",
    "C16.trial_uses_solver_rho",
    "C16.rho_positive_in_callback",
    "C16.second_solve.initial_rho_is_params_rho",
    "C16.second_solve.dualnorm_at_most_tenfold",
]
META = dict(
    functions_encoded=loop.FUNCTIONS,
    stubs=loop.STUBS,
    assumptions=loop.LOOP_ASSUMPTIONS,
    bounds=dict(quick="K=2 trial steps, n=1, m in {0,1} for all six policies and m=2 (two equalities; equality+inequality, with step-failure results) for the dual-norm and constant policies", thorough="K=3 (4 without constraints), plus inequality rows"),
    outside=["runs longer than K trial steps", "floating-point overflow of 10*rho"],
    explanation="rho argument of successive trial steps and solver.rho read in callbacks, for every path of the real loop and the real penalty strategies.",
)


def second_solves(tier):
    o = dict(mulmode="uf", timeout_ms=20000)
    K = 2 if tier == "quick" else 3
    return [dict(module="twin", fn="h_second_solve_penalty", shape=dict(K=K, policy=p, vars=["boxed"], cons=c), opts=o) for p, c in (("DualNorm", ["eq0"]), ("Constant", ["eq0"]), ("DualEquilibration", ["eq0"]), ("ObjectiveFilter", []))]


def tasks(tier):
    if tier == "quick":
        combos = [dict(policy=p, cons=["eq0"]) for p in loop.POLICIES] + [dict(policy=p, cons=[]) for p in ("Constant", "DualNorm", "ObjectiveFilter")]
        # two constraint rows: the multiplier norm is a genuine vector norm (max-norm and 2-norm differ)
        combos += [dict(policy="DualNorm", cons=["eq0", "eq0"]), dict(policy="DualNorm", cons=["eq0", "ge"], step_failures=True), dict(policy="Constant", cons=["eq0", "eq0"])]
        return loop.loop_tasks(combos, 2) + loop.loop_tasks([dict(policy=p, cons=[]) for p in loop.POLICIES], 4) + second_solves(tier)
    combos = [dict(policy=p, cons=c) for p in loop.POLICIES for c in (["eq0"], ["ge"])] + [dict(policy="DualNorm", cons=["eq0", "eq0"]), dict(policy="DualNorm", cons=["eq0", "ge"], step_failures=True), dict(policy="DualNorm", cons=["ranged", "le"], vars=["lower"])]
    return loop.loop_tasks(combos, 3) + loop.loop_tasks([dict(policy=p, cons=[]) for p in loop.POLICIES], 4) + second_solves(tier)
