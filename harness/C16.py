"""C16  The penalty parameter is positive and never decreases (L1 loop + policy step)."""
from . import loop, twin

OWNED = ["C16."]
REQUIRED = [
    "C16.rho_positive",
    "C16.rho_monotone",
    "C16.constant_policy_never_changes",
    "C16.dualnorm_bounded_by_multiplier_norm",
    "C16.dualnorm_at_most_tenfold",
    "C16.trial_uses_solver_rho",
    "C16.rho_positive_in_callback",
    "C16.second_solve.initial_rho_is_params_rho",
    "C16.second_solve.dualnorm_at_most_tenfold",
    "C16.policy.rho_never_decreases",
]
META = dict(
    functions_encoded=loop.FUNCTIONS,
    stubs=loop.STUBS,
    assumptions=loop.LOOP_ASSUMPTIONS,
    bounds=dict(quick="K=2 trial steps, n=1, m in {0,1} for all six policies and m=2 (two equalities; equality+inequality, with step-failure results) for the dual-norm and constant policies", thorough="K=3 (4 without constraints), plus inequality rows"),
    outside=["runs longer than K trial steps", "floating-point overflow of 10*rho"],
    explanation="rho argument of successive trial steps and solver.rho read in callbacks, for every path of the real loop and the real penalty strategies.",
)


def h_policy(E, shape):
    """the six penalty policies driven directly (no solver loop): N updates on arbitrary accepted
    iterates of an uninterpreted problem.  Every penalty handed back -- with an accepted step or with
    a veto -- is positive and not below the one before; the constant policy never changes it."""
    from symx import boot
    from symx.core import land
    from . import common
    from .common import arr

    P = boot.mod("params")
    PEN = boot.mod("penalty")
    Iterate = boot.mod("iterate").Iterate
    pol = shape["policy"]
    user, spec = common.make_problem(E, shape.get("vars", ["boxed"]), shape.get("cons", ["eq0"]))
    rho0 = E.real("rho", lo=0, lo_strict=True)
    opt_tol = E.real("opt_tol", lo=0, lo_strict=True)
    params = P.Params(rho=rho0, opt_tol=opt_tol, penalty_update=P.PenaltyUpdate[pol])
    strat = PEN.penalty_strategy(user, params)

    def point(tag):
        xs = []
        for j in range(spec["n"]):
            v = E.real(f"{tag}x{j}")
            E.assume(land(spec["xl"][j] <= v, v <= spec["xu"][j]))
            xs.append(v)
        ys = [E.real(f"{tag}y{i}") for i in range(spec["m"])]
        return Iterate(user, params, arr(xs), arr(ys))

    cur = point("p0")
    rho = strat.initial(cur)
    E.prove(rho == rho0, "C16.initial_rho_is_params_rho")
    for k in range(shape.get("N", 3)):
        nxt = point(f"p{k + 1}")
        res = strat.update(cur, nxt)
        E.prove(res.next_rho > 0, "C16.policy.rho_positive")
        E.prove(res.next_rho >= rho, "C16.policy.rho_never_decreases", info=dict(step=k, accepted=bool(res.accept)))
        if pol == "Constant":
            E.prove(res.next_rho == rho0, "C16.constant_policy_never_changes")
        rho = res.next_rho
        if res.accept:
            cur = nxt
    E.prove(params.rho == rho0, "C10.params_object_not_modified")


def second_solves(tier):
    o = dict(mulmode="uf", timeout_ms=20000)
    K = 2 if tier == "quick" else 3
    return [dict(module="twin", fn="h_second_solve_penalty", shape=dict(K=K, policy=p, vars=["boxed"], cons=c), opts=o) for p, c in (("DualNorm", ["eq0"]), ("Constant", ["eq0"]), ("DualEquilibration", ["eq0"]), ("ObjectiveFilter", []))]


def policies(tier):
    # exact arithmetic (nlsat): the counterexamples of this small harness replay
    out = []
    for p in loop.POLICIES:
        out.append(dict(module="C16", fn="h_policy", shape=dict(policy=p, N=2), opts=dict(nra=True, timeout_ms=30000)))
        if tier != "quick":
            # longer sequences with uninterpreted products (N=3 in exact arithmetic ran into solver timeouts)
            out.append(dict(module="C16", fn="h_policy", shape=dict(policy=p, N=4), opts=dict(mulmode="uf", timeout_ms=20000)))
    return out


def tasks(tier):
    if tier == "quick":
        combos = [dict(policy=p, cons=["eq0"]) for p in loop.POLICIES] + [dict(policy=p, cons=[]) for p in ("Constant", "DualNorm", "ObjectiveFilter")]
        # two constraint rows: the multiplier norm is a genuine vector norm (max-norm and 2-norm differ)
        combos += [dict(policy="DualNorm", cons=["eq0", "eq0"]), dict(policy="DualNorm", cons=["eq0", "ge"], step_failures=True), dict(policy="Constant", cons=["eq0", "eq0"])]
        return loop.loop_tasks(combos, 2) + loop.loop_tasks([dict(policy=p, cons=[]) for p in loop.POLICIES], 4) + second_solves(tier) + policies(tier)
    combos = [dict(policy=p, cons=c) for p in loop.POLICIES for c in (["eq0"], ["ge"])] + [dict(policy="DualNorm", cons=["eq0", "eq0"]), dict(policy="DualNorm", cons=["eq0", "ge"], step_failures=True), dict(policy="DualNorm", cons=["ranged", "le"], vars=["lower"])]
    return loop.loop_tasks(combos, 3) + loop.loop_tasks([dict(policy=p, cons=[]) for p in loop.POLICIES], 4) + second_solves(tier) + policies(tier)
