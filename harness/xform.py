"""Array harness for the reformulation pipeline (C04, C11, parts of C05/C01): the real
Transformation / ScaledProblem / ConstrainedProblem / evaluator / Scaling code evaluated at
symbolic internal points, multipliers and integer power-of-two weights, compared entry by entry
with the reference transformation written here from the property statement.  The user's
callbacks are uninterpreted functions, so a wrong evaluation point or multiplier is visible.
"""
from symx import boot, core
from symx.core import iff, implies, ite, land, lnot, lor, sabs, smax, smin

from . import common
from .common import INF, arr, dense, items

FUNCTIONS = [
    "pygradflow/transform.py:Transformation.{__init__,trans_problem,scaled_problem,transform_sol,restore_sol,create_transformed_iterate}",
    "pygradflow/scale.py:create_scaling, Scaling.{__init__,scale_primal,unscale_primal,scale_dual,unscale_dual,scale_bounds_dual,unscale_bounds_dual}",
    "pygradflow/scale.py:ScaledProblem.{__init__,obj,obj_grad,cons,cons_jac,lag_hess}",
    "pygradflow/cons_problem.py:ConstrainedProblem.{__init__,create_slacks,obj,obj_grad,cons,cons_jac,lag_hess,transform_sol,restore_sol}",
    "pygradflow/eval.py:create_evaluator, ValidatingEvaluator.*, SimpleEvaluator.*, astype",
    "pygradflow/problem.py:Problem.__init__",
    "pygradflow/iterate.py:Iterate.{__init__,obj,obj_grad,cons,cons_jac,lag_hess}",
    "pygradflow/util.py:sparse_zero",
]


def p2(v, e):
    return boot.np.ldexp(v, e) if not isinstance(e, int) or True else v


def ld(v, e):
    """v * 2**e for a scalar v and (symbolic or concrete) integer e -- the numpy model's ldexp"""
    np = boot.np
    if boot.MODE == "sym":
        from symx import snp

        return snp._ldexp1(v, e)
    return float(np.ldexp(v, int(np.asarray(e).reshape(-1)[0])))


def setup(E, shape):
    np = boot.np
    P = boot.mod("params")
    n, m = len(shape["vars"]), len(shape["cons"])
    W = shape.get("W", 0)
    pattern = shape.get("jac_pattern")
    hpattern = shape.get("hess_pattern")
    user, spec = common.make_problem(
        E,
        shape["vars"],
        shape["cons"],
        fmt=shape.get("fmt", "coo"),
        policy=shape.get("policy", "fresh"),
        jac_pattern=[tuple(p) for p in pattern] if pattern is not None else None,
        hess_pattern=[tuple(p) for p in hpattern] if hpattern is not None else None,
        int_matrices=shape.get("int_matrices", False),
    )
    kw = {}
    vw = cw = ow = None
    if W:
        vw = [E.int(f"vw{j}", -W, W) for j in range(n)]
        cw = [E.int(f"cw{i}", -W, W) for i in range(m)]
        ow = E.int("ow", -W, W)
        Scaling = boot.mod("scale").Scaling
        vwa = np.array(vw, dtype=int) if n else np.zeros((0,), dtype=int)
        cwa = np.array(cw, dtype=int) if m else np.zeros((0,), dtype=int)
        sc = Scaling(vwa, cwa, ow)
        kw = dict(scaling=sc, scaling_type=P.ScalingType.Custom)
        spec["weight_arrays"] = (vwa, cwa)
    else:
        vw = [0] * n
        cw = [0] * m
        ow = 0
    if shape.get("single"):
        kw["precision"] = P.Precision.Single  # float64 callbacks, float32 working precision
    params = P.Params(validate_input=shape.get("validate", True), **kw)
    T = boot.mod("transform").Transformation(user, params)
    spec.update(vw=vw, cw=cw, ow=ow)
    slack_pos = [i for i, k in enumerate(shape["cons"]) if k not in ("eq0", "eqb")]
    spec["slack_pos"] = slack_pos
    return user, spec, params, T


def reference(E, spec, x_int, y_int):
    """the statement's reference transformation at internal point x_int / multiplier y_int"""
    n, m = spec["n"], spec["m"]
    vw, cw, ow = spec["vw"], spec["cw"], spec["ow"]
    sp = spec["slack_pos"]
    xo = [ld(x_int[j], -vw[j]) for j in range(n)]
    yo = [ld(y_int[i], cw[i] - ow) for i in range(m)]
    s = x_int[n:]
    t = spec["tag"]
    f = ld(E.uf(t + "f", *xo), ow)
    g = [ld(E.uf(f"{t}g{j}", *xo), ow - vw[j]) for j in range(n)] + [0.0] * len(sp)
    c = []
    for i in range(m):
        ci = ld(E.uf(f"{t}c{i}", *xo), cw[i])
        if spec["cons_kinds"][i] == "eqb":
            ci = ci - ld(spec["cl"][i], cw[i])
        if i in sp:
            ci = ci - s[sp.index(i)]
        c.append(ci)
    N = n + len(sp)
    J = [[0.0] * N for _ in range(m)]
    for (i, j) in spec["jac_pattern"]:
        J[i][j] = J[i][j] + ld(spec["Jf"](i, j, xo), cw[i] - vw[j])
    for q, i in enumerate(sp):
        J[i][n + q] = -1.0
    H = [[0.0] * N for _ in range(N)]
    for (i, j) in spec["hess_pattern"]:
        a, b = (i, j) if i <= j else (j, i)
        H[i][j] = H[i][j] + ld(spec["Hf"](a, b, xo, yo), ow - vw[i] - vw[j])
    lb = [ld(spec["xl"][j], vw[j]) if spec["xl"][j] != -INF else -INF for j in range(n)] + [ld(spec["cl"][i], cw[i]) if spec["cl"][i] != -INF else -INF for i in sp]
    ub = [ld(spec["xu"][j], vw[j]) if spec["xu"][j] != INF else INF for j in range(n)] + [ld(spec["cu"][i], cw[i]) if spec["cu"][i] != INF else INF for i in sp]
    return dict(xo=xo, yo=yo, f=f, g=g, c=c, J=J, H=H, lb=lb, ub=ub, N=N)


def eq_vec(E, got, want, oid):
    g = items(got)
    ok = len(g) == len(want)
    if ok:
        for a, b in zip(g, want):
            ok = land(ok, a == b)
    E.prove(ok, oid)


def eq_mat(E, got, want, oid):
    d = dense(got)
    ok = len(d) == len(want) and all(len(r) == len(w) for r, w in zip(d, want))
    if ok:
        for r, w in zip(d, want):
            for a, b in zip(r, w):
                ok = land(ok, a == b)
    E.prove(ok, oid)


eq_ext = common.eq_ext
snapshot = common.snapshot
check_snapshots = common.check_snapshots


def h_transform(E, shape):
    np = boot.np
    user, spec, params, T = setup(E, shape)
    n, m = spec["n"], spec["m"]
    tp = T.trans_problem
    ev = T.evaluator
    sp = spec["slack_pos"]
    N = n + len(sp)
    owned = [("user.cons_lb", user.cons_lb), ("user.cons_ub", user.cons_ub)]
    if "weight_arrays" in spec:
        owned += [("var_weights", spec["weight_arrays"][0]), ("cons_weights", spec["weight_arrays"][1])]
    snaps = snapshot(owned)
    E.prove(tp.num_vars == N and tp.num_cons == m, "C04.dimensions")
    ref0 = reference(E, spec, [0.0] * N, [0.0] * m)
    okb = True
    for a, b in zip(items(tp.var_lb), ref0["lb"]):
        okb = land(okb, eq_ext(a, b))
    for a, b in zip(items(tp.var_ub), ref0["ub"]):
        okb = land(okb, eq_ext(a, b))
    E.prove(okb, "C04.bounds")
    E.prove(land(*[x == 0.0 for x in items(tp.cons_lb)] + [x == 0.0 for x in items(tp.cons_ub)]) if m else True, "C04.internal_rows_are_equalities")
    rounds = shape.get("rounds", 1)
    pts = []
    returned = []
    for r in range(rounds):
        if r == 2:
            x, y = pts[0]  # revisit the first point (memo hit)
        else:
            x = [E.real(f"x{r}_{j}") for j in range(N)]
            y = [E.real(f"y{r}_{i}") for i in range(m)]
        pts.append((x, y))
        if shape.get("patterns_by_round"):
            # the sparsity pattern of the user's Jacobian / Hessian depends on the evaluation point
            pr = shape["patterns_by_round"][min(r, len(shape["patterns_by_round"]) - 1)]
            spec["jac_pattern"] = [tuple(p) for p in pr["jac"]]
            spec["hess_pattern"] = [tuple(p) for p in pr["hess"]]
        ref = reference(E, spec, x, y)
        xa, ya = arr(x), arr(y)
        nc = len(spec["calls"])
        f = ev.obj(xa)
        g = ev.obj_grad(xa)
        c = ev.cons(xa)
        J = ev.cons_jac(xa)
        H = ev.lag_hess(xa, ya)
        E.prove(f == ref["f"], "C04.obj")
        eq_vec(E, g, ref["g"], "C04.obj_grad")
        eq_vec(E, c, ref["c"], "C04.cons")
        eq_mat(E, J, ref["J"], "C04.cons_jac")
        eq_mat(E, H, ref["H"], "C04.lag_hess")
        # every user callback saw exactly the unscaled point / multiplier
        okp = True
        for (kind, xs, ys, site) in spec["calls"][nc:]:
            for a, b in zip(xs, ref["xo"]):
                okp = land(okp, a == b)
            okp = land(okp, len(xs) == n)
            if ys is not None:
                okp = land(okp, len(ys) == m)
                for a, b in zip(ys, ref["yo"]):
                    okp = land(okp, a == b)
        E.prove(okp, "C04.callbacks_see_unscaled_point")
        E.prove(common.eq_all(items(xa), x), "C11.argument_arrays_unchanged")
        # objects the user's callbacks handed out (cached / memoised) keep their values
        check_snapshots(E, spec["handed"], "C11.cached_callback_results_unchanged")
        check_snapshots(E, snaps, "C11.caller_owned_unchanged")
    # round trip user -> internal -> user
    xu = []
    for j in range(n):
        v = E.real(f"xu{j}")
        xu.append(v)
    yu = [E.real(f"yu{i}") for i in range(m)]
    xua, yua = arr(xu), arr(yu)
    snaps2 = snapshot([("x_user", xua), ("y_user", yua)])
    (xi, yi) = T.transform_sol(xua, yua)
    xi_l, yi_l = items(xi), items(yi)
    vw, cw, ow = spec["vw"], spec["cw"], spec["ow"]
    ok = len(xi_l) == N and len(yi_l) == m
    if ok:
        for j in range(n):
            ok = land(ok, xi_l[j] == ld(xu[j], vw[j]))
        for q, i in enumerate(sp):
            ci = ld(E.uf(f"c{i}", *xu), cw[i])
            lo = ld(spec["cl"][i], cw[i]) if spec["cl"][i] != -INF else -INF
            hi = ld(spec["cu"][i], cw[i]) if spec["cu"][i] != INF else INF
            ok = land(ok, xi_l[n + q] == smin(smax(ci, lo), hi))
        for i in range(m):
            ok = land(ok, yi_l[i] == ld(yu[i], ow - cw[i]))
    E.prove(ok, "C04.transform_sol_is_scale_plus_projected_slack")
    d_int = [E.real(f"d{j}") for j in range(N)]
    (xr, yr, dr) = T.restore_sol(xi, yi, arr(d_int))
    E.prove(common.eq_all(items(xr), xu), "C04.round_trip_x")
    E.prove(common.eq_all(items(yr), yu), "C04.round_trip_y")
    okd = len(items(dr)) == n
    if okd:
        for j in range(n):
            okd = land(okd, items(dr)[j] == ld(d_int[j], vw[j] - ow))
    E.prove(okd, "C04.restore_bound_duals")
    check_snapshots(E, snaps2, "C11.start_point_unchanged")
    check_snapshots(E, snaps, "C11.caller_owned_unchanged")
    # a point of the internal box is handed to the user's callbacks as a point of the USER's box
    # (the bounds are scaled by exact powers of two, so the order is preserved)
    lbi, ubi = items(tp.var_lb), items(tp.var_ub)
    xb = []
    for j in range(N):
        v = E.real(f"xb{j}")
        E.assume(land(lbi[j] <= v, v <= ubi[j]))
        xb.append(v)
    nc = len(spec["calls"])
    xba = arr(xb)
    ev.obj(xba)
    ev.obj_grad(xba)
    if m:
        ev.cons(xba)
        ev.cons_jac(xba)
    ev.lag_hess(xba, arr([E.real(f"yb{i}") for i in range(m)]))
    okb = True
    for (kind, xs, ys, site) in spec["calls"][nc:]:
        okb = land(okb, common.in_box(xs, spec["xl"], spec["xu"]))
    E.prove(okb, "C05.user_callbacks_see_points_inside_the_user_bounds")
    # start iterate: in the internal box whenever x0 is in the user's box
    x0 = []
    for j in range(n):
        v = E.real(f"x0_{j}")
        E.assume(land(spec["xl"][j] <= v, v <= spec["xu"][j]))
        x0.append(v)
    x0a = arr(x0)
    it = T.create_transformed_iterate(x0a, arr(yu) if m else None)
    E.prove(common.in_box(items(it.x), items(tp.var_lb), items(tp.var_ub)), "C05.start_iterate_in_internal_box")
    E.prove(common.eq_all(items(x0a), x0), "C11.start_point_unchanged")
    # ... and it is the scaled start point followed by the projection of c(x0) onto the row bounds,
    # whatever the dtype of the caller's start point (float array, integer array)
    for kind in ("float", "int"):
        if kind == "int":
            xs0 = [E.int(f"x0i_{j}", -4, 4) for j in range(n)]
            for j in range(n):
                E.assume(land(spec["xl"][j] <= xs0[j], xs0[j] <= spec["xu"][j]))
            xs0a = np.array(xs0, dtype=int)
        else:
            xs0, xs0a = x0, arr(x0)
        its = T.create_transformed_iterate(xs0a, arr(yu) if m else None)
        got = items(its.x)
        ok0 = len(got) == N
        if ok0:
            for j in range(n):
                ok0 = land(ok0, got[j] == ld(xs0[j] * 1.0, vw[j]))
            for q, i in enumerate(sp):
                ci = ld(E.uf(f"c{i}", *xs0), cw[i])
                lo = ld(spec["cl"][i], cw[i]) if spec["cl"][i] != -INF else -INF
                hi = ld(spec["cu"][i], cw[i]) if spec["cu"][i] != INF else INF
                ok0 = land(ok0, got[n + q] == smin(smax(ci, lo), hi))
        E.prove(ok0, "C04.start_iterate_is_scaled_point_plus_projected_slack", info=dict(x0_dtype=kind))

