"""C04  The internally solved problem is an exact reformulation of the user's problem."""
from . import xform

OWNED = ["C04."]
REQUIRED = ["C04.obj", "C04.obj_grad", "C04.cons", "C04.cons_jac", "C04.lag_hess", "C04.bounds", "C04.callbacks_see_unscaled_point", "C04.round_trip_x", "C04.round_trip_y", "C04.restore_bound_duals", "C04.transform_sol_is_scale_plus_projected_slack", "C04.dimensions"]
META = dict(
    functions_encoded=xform.FUNCTIONS,
    stubs=["user Problem callbacks := uninterpreted functions of the (unscaled) evaluation point and multiplier; sparse returns in COO/CSR/CSC with the stated patterns (incl. duplicate COO entries)"],
    assumptions=[
        "exact real arithmetic with power-of-two scaling modelled as v*2^e over an exponent table (|weights| <= W); rounding/overflow outside (exactness of power-of-two scaling in binary64 is the FP lemma set of harness.fp)",
        "custom integer weights; automatically computed scalings enter through the same Scaling object (their integrality/normalisation is C20)",
    ],
    bounds=dict(
        quick="n<=2 user variables, m<=1 rows, every variable kind and every row kind at least once, W=2 (weights in [-2,2] symbolic), formats COO/CSR/CSC, full and sparse patterns, one duplicate-entry COO pattern",
        thorough="n<=2, m<=2 (all 25 row-kind pairs), W=3, all three formats, duplicate and missing-entry patterns",
    ),
    outside=["n>2 or m>2", "|weights|>W", "dense-matrix returns", "float32"],
    explanation="Each of obj/grad/cons/Jacobian/Hessian/bounds of the real trans_problem (through the real evaluator) equals, term by term in z3, the reference transformation written from the statement; UF congruence pins the points/multipliers handed to the user's callbacks; round trip and slack start proved symbolically.",
)

VK = ["free", "lower", "upper", "boxed", "fixed"]
CK = ["eq0", "eqb", "ge", "le", "ranged"]


def tasks(tier):
    t = []
    fm = ["coo", "csr", "csc"]
    if tier == "quick":
        combos = [
            (["boxed"], ["ge"]),
            (["free", "lower"], ["eqb"]),
            (["upper", "fixed"], ["ranged"]),
            (["boxed"], ["le"]),
            (["lower", "boxed"], ["eq0"]),
            (["boxed", "free"], []),
        ]
        for k, (v, c) in enumerate(combos):
            for W in (0, 2):
                t.append(dict(module="xform", fn="h_transform", shape=dict(vars=v, cons=c, W=W, fmt=fm[k % 3]), opts=dict(exp_window=(-3 * W - 1, 3 * W + 1))))
        # callbacks returning integer-dtype matrices (built from integer literals, as tests/pygradflow/tame.py does)
        for f, c in (("coo", ["eq0"]), ("csr", ["ge"])):
            t.append(dict(module="xform", fn="h_transform", shape=dict(vars=["boxed"], cons=c, W=1, fmt=f, int_matrices=True), opts=dict(exp_window=(-4, 4))))
        t.append(dict(module="xform", fn="h_transform", shape=dict(vars=["boxed", "lower"], cons=["ge"], W=2, fmt="coo", jac_pattern=[[0, 0], [0, 0], [0, 1]], hess_pattern=[[0, 0], [1, 1], [1, 1], [0, 1], [1, 0]]), opts=dict(exp_window=(-7, 7))))
        t.append(dict(module="xform", fn="h_transform", shape=dict(vars=["boxed", "lower"], cons=["ranged"], W=2, fmt="csc", jac_pattern=[[0, 1]], hess_pattern=[[0, 0]]), opts=dict(exp_window=(-7, 7))))
        # "for all evaluation points" includes the second and later evaluations of callbacks that
        # hand out one cached object (constant Jacobian / Hessian) or memoise per point
        # sparsity patterns that change from one evaluation point to the next (same nnz)
        pbr = [dict(jac=[[0, 0]], hess=[[0, 0], [1, 1]]), dict(jac=[[0, 1]], hess=[[0, 1], [1, 0]]), dict(jac=[[0, 0]], hess=[[0, 0], [1, 1]])]
        for fmt in ("coo", "csr"):
            t.append(dict(module="xform", fn="h_transform", shape=dict(vars=["boxed", "lower"], cons=["ge"], W=2, fmt=fmt, rounds=3, patterns_by_round=pbr), opts=dict(exp_window=(-7, 7))))
        for pol, fmt, c in (("cached", "coo", ["eq0"]), ("memo", "csr", ["ge"]), ("cached", "csc", ["eqb"])):
            t.append(dict(module="xform", fn="h_transform", shape=dict(vars=["boxed"], cons=c, W=1, fmt=fmt, policy=pol, rounds=3), opts=dict(exp_window=(-4, 4))))
        return t
    k = 0
    for a in CK:
        for b in CK:
            v = [VK[k % 5], VK[(k // 5 + k + 1) % 5]]
            t.append(dict(module="xform", fn="h_transform", shape=dict(vars=v, cons=[a, b], W=3, fmt=fm[k % 3]), opts=dict(exp_window=(-10, 10))))
            k += 1
    for a in CK:
        t.append(dict(module="xform", fn="h_transform", shape=dict(vars=["boxed", "fixed"], cons=[a], W=0, fmt="coo")))
    t.append(dict(module="xform", fn="h_transform", shape=dict(vars=["boxed", "lower"], cons=["ge", "eqb"], W=3, fmt="coo", jac_pattern=[[0, 0], [0, 0], [1, 1], [0, 1]], hess_pattern=[[0, 0], [1, 1], [1, 1], [0, 1], [1, 0]]), opts=dict(exp_window=(-10, 10))))
    t.append(dict(module="xform", fn="h_transform", shape=dict(vars=["free", "upper"], cons=["ranged", "le"], W=3, fmt="csr", jac_pattern=[[1, 0]], hess_pattern=[[1, 1]]), opts=dict(exp_window=(-10, 10))))
    for pol in ("cached", "memo"):
        for fmt in ("coo", "csr", "csc"):
            t.append(dict(module="xform", fn="h_transform", shape=dict(vars=["boxed", "lower"], cons=["eqb", "ge"], W=2, fmt=fmt, policy=pol, rounds=3), opts=dict(exp_window=(-7, 7))))
    return t
