"""C19 harness: the derivative checker (deriv_check, DerivError, Solver._deriv_check)."""
from symx import boot, core
from symx.core import iff, implies, ite, land, lnot, lor, sabs, smax, smin

from . import common
from .common import INF, arr, dense, items

FUNCTIONS = [
    "pygradflow/deriv_check.py:deriv_check",
    "pygradflow/deriv_check.py:DerivError.__init__",
    "pygradflow/solver.py:Solver._deriv_check",
]
RTOL = 1e-5  # numpy.allclose / isclose default relative tolerance: part of 'the checker's tolerance'


def h_deriv(E, shape):
    """deriv_check driven directly: f uninterpreted, derivative entries arbitrary"""
    DC = boot.mod("deriv_check")
    P = boot.mod("params")
    np = boot.np
    m, n = shape["m"], shape["n"]
    fmt = shape.get("fmt", "dense")
    tol = E.real("deriv_tol", lo=0, lo_strict=True)
    eps = shape.get("eps", 2.0 ** -20)
    params = P.Params(deriv_tol=tol, deriv_pert=eps)
    x = [E.real(f"x{j}") for j in range(n)]
    scalar = shape.get("scalar", False)

    def F(xa):
        xs = items(xa)
        vals = [E.uf(f"F{r}", *xs) for r in range(m)]
        return vals[0] if scalar else arr(vals)

    pattern = [tuple(p) for p in shape.get("pattern", [(r, c) for r in range(m) for c in range(n)])]
    d = {(r, c): E.real(f"d{r}_{c}") for (r, c) in pattern}
    if fmt == "dense":
        assert m == 1
        dval = arr([d.get((0, c), 0.0) for c in range(n)])
    else:
        dval = common.make_sparse(fmt, (m, n), [(r, c, v) for (r, c), v in d.items()])
    xa = arr(x)
    fd = {}
    for c in range(n):
        xp = [x[j] + eps if j == c else x[j] for j in range(n)]
        for r in range(m):
            fd[(r, c)] = (E.uf(f"F{r}", *xp) - E.uf(f"F{r}", *x)) / eps
    tight = {k: sabs((d.get(k, 0.0)) - fd[k]) <= tol for k in fd}
    loose = {k: sabs((d.get(k, 0.0)) - fd[k]) <= tol + RTOL * sabs(fd[k]) for k in fd}
    err = None
    try:
        DC.deriv_check(F, xa, dval, params)
    except DC.DerivError as e:
        err = e
    E.prove(common.eq_all(items(xa), x), "C19.check_does_not_modify_its_point")
    if err is None:
        E.prove(land(*loose.values()), "C19.pass_implies_all_entries_within_tolerance")
    else:
        E.prove(lnot(land(*tight.values())), "C19.correct_derivatives_pass")
        c = int(err.col_index)
        rows = [int(v) for v in items(err.invalid_indices)]
        ok = land(*[loose[(r, cc)] for cc in range(c) for r in range(m)]) if c > 0 else True
        for r in range(m):
            ok = land(ok, iff(r in rows, lnot(loose[(r, c)])))
        ok = land(ok, len(rows) == len(set(rows)) and 0 <= c < n)
        E.prove(ok, "C19.error_identifies_exactly_the_wrong_rows_and_column")
        # single wrong entry => exactly that entry is reported
        for (r0, c0) in fd:
            single = land(lnot(loose[(r0, c0)]), *[tight[k] for k in fd if k != (r0, c0)])
            E.prove(implies(single, c == c0 and rows == [r0]), "C19.single_wrong_entry_is_pinpointed")


def h_solver(E, shape):
    """Solver._deriv_check: which functions are differenced against which derivatives"""
    S = boot.mod("solver")
    P = boot.mod("params")
    DC = boot.mod("deriv_check")
    np = boot.np
    tol = E.real("deriv_tol", lo=0, lo_strict=True)
    eps = 2.0 ** -20
    which = shape.get("which", "CheckAll")
    kw = {}
    sc = shape.get("scaling")  # concrete power-of-two weights dict(vw=int, cw=int, ow=int): the check runs on the scaled problem
    vw, cw, ow = (sc["vw"], sc["cw"], sc["ow"]) if sc else (0, 0, 0)
    if sc:
        Scaling = boot.mod("scale").Scaling
        kw = dict(scaling=Scaling(np.array([vw], dtype=int), np.array([cw], dtype=int), ow), scaling_type=P.ScalingType.Custom)
    params = P.Params(deriv_tol=tol, deriv_pert=eps, deriv_check=P.DerivCheck[which], **kw)
    user, spec = common.make_problem(E, ["free"], ["eq0"], fmt=shape.get("fmt", "coo"))
    solver = S.Solver(user, params)
    solver.evaluator = solver.transform.evaluator
    xs = E.real("x")
    ys = E.real("y")
    # reference change of variables (C04): x_user = 2^-vw x, y_user = 2^(cw-ow) y; the checker differences the
    # functions of the problem it is given (the scaled one), so the oracle is stated on the reference-scaled values
    x, xp, y = xs * 2.0 ** -vw, (xs + eps) * 2.0 ** -vw, ys * 2.0 ** (cw - ow)
    f0, f1 = E.uf("f", x) * 2.0 ** ow, E.uf("f", xp) * 2.0 ** ow
    g0, g1 = E.uf("g0", x) * 2.0 ** (ow - vw), E.uf("g0", xp) * 2.0 ** (ow - vw)
    c0, c1 = E.uf("c0", x) * 2.0 ** cw, E.uf("c0", xp) * 2.0 ** cw
    J0, J1 = E.uf("J0_0", x) * 2.0 ** (cw - vw), E.uf("J0_0", xp) * 2.0 ** (cw - vw)
    H = E.uf("H0_0", x, y) * 2.0 ** (ow - 2 * vw)
    x, y = xs, ys

    def loose(dv, a, b):
        fdv = (b - a) / eps
        return sabs(dv - fdv) <= tol + RTOL * sabs(fdv)

    def tight(dv, a, b):
        fdv = (b - a) / eps
        return sabs(dv - fdv) <= tol

    lg, lj = loose(g0, f0, f1), loose(J0, c0, c1)
    lh = loose(H, g0 + J0 * y, g1 + J1 * y)
    tg, tj, th = tight(g0, f0, f1), tight(J0, c0, c1), tight(H, g0 + J0 * y, g1 + J1 * y)
    first = which in ("CheckFirst", "CheckAll")
    second = which in ("CheckSecond", "CheckAll")
    err = None
    try:
        solver._deriv_check(arr([x]), arr([y]))
    except DC.DerivError as e:
        err = e
    want_pass = land(lg if first else True, lj if first else True, lh if second else True)
    all_tight = land(tg if first else True, tj if first else True, th if second else True)
    if err is None:
        E.prove(want_pass, "C19.solver_check_pass_implies_derivatives_within_tolerance")
    else:
        E.prove(lnot(all_tight), "C19.solver_check_accepts_correct_derivatives")
        E.prove(int(err.col_index) == 0 and [int(v) for v in items(err.invalid_indices)] == [0], "C19.solver_check_error_location")
    if which == "NoCheck":
        E.prove(err is None and len(spec["calls"]) == 0, "C19.no_check_no_evaluations")
