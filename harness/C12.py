"""C12  Counters, callbacks and the recorded path tell one consistent story (L1 loop harness)."""
from . import loop, twin

OWNED = ["C12."]
REQUIRED = [
    "C12.iterations_equals_trials",
    "C12.iterations_equals_callbacks",
    "C12.accepted_equals_iterate_changes",
    "C12.callback_accept_flag_matches_iterate_change",
    "C12.step_starts_from_current_iterate",
    "C12.final_is_last_accepted",
    "C12.path_has_accepted_plus_one_columns",
    "C12.path_columns_are_accepted_iterates_in_order",
    "C12.model_time_advances_by_dt_used",
    "C12.dist_factor_at_least_one",
    "C12.result_is_last_accepted.x",
]
META = dict(
    functions_encoded=loop.FUNCTIONS,
    stubs=loop.STUBS,
    assumptions=loop.LOOP_ASSUMPTIONS,
    bounds=dict(
        quick="<= K=2 trial steps of the main loop (K=4 without constraints); n=1 user variable (boxed; two shapes with n=2), m in {0, 1 equality, 1 inequality (slack => internal n=2)}; all six penalty policies; symbolic iteration limit in [0,K], time limit, clock, tolerances, lamb_max, rho; twin shapes in which the step oracle may also return StepController's failure result (same iterate object, not accepted)",
        thorough="K=3 for all policies (K=4 without constraints); same shapes plus ranged/one-sided rows and free/lower-bounded variables",
    ),
    outside=["runs longer than K trial steps", "n > 1 user variables", "floating-point rounding of path_dist vs direct_dist"],
    explanation="Every path of the real Solver.solve loop with an arbitrary step oracle; per path z3 discharges the counter/callback/path obligations against the oracle's own log.",
)


def outside(tier):
    # a start point outside the box is legal input: the first announced step starts from it (transformed), not from its projection
    return loop.loop_tasks([dict(policy="DualNorm", cons=["ranged"], vars=["boxed"], x0_outside=True), dict(policy="Constant", cons=[], vars=["lower", "upper"], x0_outside=True)], 2)


def observers(tier):
    K = 2 if tier == "quick" else 3
    return [dict(module="twin", fn="h_observers", shape=dict(K=K, policy=p, vars=["boxed"], cons=c), opts=dict(mulmode="uf", timeout_ms=20000)) for p, c in (("DualNorm", ["eq0"]), ("ObjectiveFilter", []), ("Constant", []))]


def tasks(tier):
    pols = loop.POLICIES
    if tier == "quick":
        combos = [dict(policy=p, cons=c) for p in pols for c in ([], ["eq0"])] + [dict(policy="DualNorm", cons=["ge"]), dict(policy="ObjectiveFilter", cons=["ge"]), dict(policy="DualNorm", cons=["eq0"], vars=["boxed", "lower"]), dict(policy="LagrangianFilter", cons=[], vars=["free", "boxed"]), dict(policy="DualNorm", cons=["ge"], scaling=dict(vw=[1], cw=[-2], ow=3)), dict(policy="ObjectiveFilter", cons=["eqb"], scaling=dict(vw=[-1], cw=[2], ow=-1))]
        # without constraints the loop is cheap: go deeper (a filter veto needs an earlier accepted
        # step, so veto-then-accept sequences only exist from K=3 on)
        fails = [dict(c, step_failures=True) for c in combos if c.get("cons") != [] or c.get("vars")] + [dict(policy=p, cons=[], step_failures=True) for p in ("Constant", "DualNorm")]
        return loop.loop_tasks(combos, 2) + loop.loop_tasks(fails, 2) + loop.loop_tasks([dict(policy=p, cons=[]) for p in pols], 4) + loop.loop_tasks([dict(policy="Constant", cons=[], step_failures=True)], 4) + observers(tier) + outside(tier)
    combos = [dict(policy=p, cons=c) for p in pols for c in (["eq0"], ["ge"])] + [dict(policy="DualNorm", cons=["ranged"], vars=["lower"]), dict(policy="LagrangianFilter", cons=["le"], vars=["free"])]
    fails = [dict(c, step_failures=True) for c in combos]
    return loop.loop_tasks(combos, 3) + loop.loop_tasks(fails, 2) + loop.loop_tasks([dict(policy=p, cons=[]) for p in pols], 4) + loop.loop_tasks([dict(policy=p, cons=[], step_failures=True) for p in pols], 3) + observers(tier) + outside(tier)
