"""C20 array harness: the automatic scalings of pygradflow/scale.py on the exponent model of
frexp/ldexp (threshold tables over a stated window), including whatever integer-dtype stores
the code performs (numpy truncates float -> int stores toward zero; the model does too)."""
from symx import boot, core
from symx.core import Abort, iff, implies, ite, land, lnot, lor, sabs, smax, smin

from . import common
from .common import INF, arr, dense, items
from .xform import ld

FUNCTIONS = [
    "pygradflow/scale.py:Scaling.weights_from_nominal_values",
    "pygradflow/scale.py:Scaling.from_nominal_values",
    "pygradflow/scale.py:Scaling.from_grad_jac",
    "pygradflow/scale.py:scale_symmetric",
    "pygradflow/scale.py:Scaling.from_equilibrated_kkt",
    "pygradflow/scale.py:Scaling.__init__",
    "pygradflow/scale.py:create_scaling",
]


def mag(E, name, W0, allow_zero=True):
    """a real that is zero or has magnitude in [2^-W0, 2^W0]"""
    v = E.real(name)
    a = sabs(v)
    inw = land(a >= 2.0 ** (-W0), a <= 2.0 ** W0)
    E.assume(lor(v == 0, inw) if allow_zero else inw)
    return v


def is_int_weights(w):
    if boot.MODE == "sym":
        return w.dtype.kind == "i" and all(isinstance(v, (int, core.SI)) and not isinstance(v, bool) for v in w.items)
    return w.dtype.kind == "i"


def in12(E, v, oid):
    a = sabs(v)
    E.prove(implies(v != 0, land(a >= 1.0, a < 2.0)) if not isinstance(v, bool) else True, oid)


def h_nominal(E, shape):
    Scaling = boot.mod("scale").Scaling
    W0 = shape["W0"]
    n, m = shape["n"], shape["m"]
    xv = [mag(E, f"xv{j}", W0) for j in range(n)]
    cv = [mag(E, f"cv{i}", W0) for i in range(m)]
    ov = mag(E, "ov", W0, allow_zero=False)
    xva, cva = arr(xv), arr(cv)
    snaps = common.snapshot([("nominal variable values", xva), ("nominal constraint values", cva)])
    sc = Scaling.from_nominal_values(xva, cva, ov)
    common.check_snapshots(E, snaps, "C11.scaling_inputs_unchanged")
    E.prove(is_int_weights(sc.var_weights) and is_int_weights(sc.cons_weights), "C20.weights_are_integers")
    vw, cw = items(sc.var_weights), items(sc.cons_weights)
    for j in range(n):
        E.prove(implies(xv[j] != 0, land(sabs(ld(xv[j], vw[j])) >= 1.0, sabs(ld(xv[j], vw[j])) < 2.0)), "C20.nominal_values_normalised")
    for i in range(m):
        E.prove(implies(cv[i] != 0, land(sabs(ld(cv[i], cw[i])) >= 1.0, sabs(ld(cv[i], cw[i])) < 2.0)), "C20.nominal_values_normalised")
    so = ld(ov, sc.obj_weight)
    E.prove(land(sabs(so) >= 1.0, sabs(so) < 2.0), "C20.nominal_objective_normalised")


def h_gradjac(E, shape):
    Scaling = boot.mod("scale").Scaling
    W0 = shape["W0"]
    n, m = shape["n"], shape["m"]
    g = [mag(E, f"g{j}", W0) for j in range(n)]
    pattern = [tuple(p) for p in shape.get("pattern", [(i, j) for i in range(m) for j in range(n)])]
    ent = [(i, j, mag(E, f"J{i}_{j}_{k}", W0)) for k, (i, j) in enumerate(pattern)]
    J = common.make_sparse(shape.get("fmt", "coo"), (m, n), ent) if m else None
    ga = arr(g)
    snaps = common.snapshot([("gradient", ga)] + ([("jacobian", J)] if m else []))
    sc = Scaling.from_grad_jac(ga, J)
    common.check_snapshots(E, snaps, "C11.scaling_inputs_unchanged")
    E.prove(is_int_weights(sc.var_weights) and is_int_weights(sc.cons_weights), "C20.weights_are_integers")
    vw, cw = items(sc.var_weights), items(sc.cons_weights)
    for j in range(n):
        s = ld(g[j], -vw[j])
        E.prove(implies(g[j] != 0, land(sabs(s) >= 1.0, sabs(s) < 2.0)), "C20.gradient_normalised")
    if m:
        D = dense(J)  # duplicates summed, as the scaled problem will see them
        for i in range(m):
            rowmax = 0.0
            nz = False
            # the row maximum the statement talks about is over the stored entries
            for (a, b, v) in ent:
                if a == i:
                    rowmax = smax(rowmax, sabs(ld(ld(v, -vw[b]), cw[i])))
                    nz = lor(nz, v != 0)
            E.prove(implies(nz, land(rowmax >= 1.0, rowmax < 2.0)), "C20.jacobian_row_max_normalised")


class FrexpCounter:
    """proxy for the numpy module seen by scale.py: bounds the equilibration loop"""

    def __init__(self, np, limit):
        self.__dict__["_np"] = np
        self.__dict__["_limit"] = limit
        self.__dict__["_count"] = 0

    def __getattr__(self, k):
        return getattr(self._np, k)

    def frexp(self, v):
        self.__dict__["_count"] += 1
        if self._count > self._limit:
            raise Abort()  # unwinding bound of the equilibration loop
        return self._np.frexp(v)


def h_kkt(E, shape):
    scale = boot.mod("scale")
    W0 = shape["W0"]
    n, m = shape["n"], shape["m"]
    U = shape["unwind"]
    H = {}
    hent = []
    for a in range(n):
        for b in range(a, n):
            if (shape.get("hdiag_only") and a != b) or shape.get("no_hess"):
                continue
            v = mag(E, f"H{a}_{b}", W0)
            hent.append((a, b, v))
            if a != b:
                hent.append((b, a, v))
    if shape.get("jrange"):
        # non-zero Jacobian entries of either sign with magnitude in [lo, hi)
        lo, hi = shape["jrange"]
        jent = []
        for i in range(m):
            for j in range(n):
                v = E.real(f"J{i}_{j}")
                E.assume(land(sabs(v) >= lo, sabs(v) < hi))
                jent.append((i, j, v))
    else:
        jent = [(i, j, mag(E, f"J{i}_{j}", W0)) for i in range(m) for j in range(n)]
    Hm = common.make_sparse(shape.get("fmt", "coo"), (n, n), hent)
    Jm = common.make_sparse(shape.get("fmt", "coo"), (m, n), jent)
    old = scale.np
    scale.np = FrexpCounter(old, U)
    snaps = common.snapshot([("hessian", Hm), ("jacobian", Jm)])
    try:
        sc = scale.Scaling.from_equilibrated_kkt(Hm, Jm)
    except Exception as e:
        if type(e) is Exception and "Equilibration failed to converge" in str(e):
            # the equilibration did not return: allowed by the statement ("whenever it returns")
            E.prove(True, "C20.nonconvergence_is_an_error_not_a_scaling")
            common.check_snapshots(E, snaps, "C11.scaling_inputs_unchanged")
            return
        raise
    finally:
        scale.np = old
    common.check_snapshots(E, snaps, "C11.scaling_inputs_unchanged")
    E.prove(is_int_weights(sc.var_weights) and is_int_weights(sc.cons_weights), "C20.weights_are_integers")
    vw, cw = items(sc.var_weights), items(sc.cons_weights)
    D = [-w for w in vw] + list(cw)
    N = n + m
    K = [[0.0] * N for _ in range(N)]
    for a, b, v in hent:
        K[a][b] = v
    for i, j, v in jent:
        K[n + i][j] = v
        K[j][n + i] = v
    for c in range(N):
        tot = 0.0
        nz = False
        for r in range(N):
            if not (isinstance(K[r][c], float) and K[r][c] == 0.0):
                tot = tot + sabs(ld(ld(K[r][c], D[r]), D[c]))
                nz = lor(nz, K[r][c] != 0)
        s0 = 0.0
        for r in range(N):
            s0 = s0 + sabs(K[r][c])
        thr = 1e-10  # scale_symmetric treats columns whose current sum is below this as zero columns
        E.prove(implies(land(nz, s0 >= thr), land(tot >= 1.0, tot < 4.0)), "C20.kkt_column_sums_in_1_4")
        if shape.get("tiny"):
            E.prove(implies(land(nz, s0 < thr), land(tot >= 1.0, tot < 4.0)), "C20.kkt_tiny_nonzero_columns_normalised")


def np_arr(v):
    return arr(v)


def h_dispatch(E, shape):
    """create_scaling evaluates the user's functions at the scaling point and hands them to the
    right constructor"""
    P = boot.mod("params")
    scale = boot.mod("scale")
    W0 = shape["W0"]
    kind = shape["kind"]
    cons = shape.get("cons", ["eq0"])
    m = len(cons)
    user, spec = common.make_problem(E, ["free"], cons, fmt=shape.get("fmt", "coo"), policy=shape.get("policy", "fresh"))
    xs = mag(E, "xs", W0)
    ys = [E.real(f"ys{i}") for i in range(m)]
    pk = dict(precision=P.Precision.Single) if shape.get("single") else {}  # float32 working precision, float64 user data
    params = P.Params(scaling_type=P.ScalingType[kind], scaling_primal=arr([xs]), scaling_dual=arr(ys), **pk)
    snaps = common.snapshot([("params.scaling_primal", params.scaling_primal), ("params.scaling_dual", params.scaling_dual)])
    gv = E.uf("g0", xs)
    cv = E.uf("c0", xs) if m else 0.0
    const = shape.get("policy") == "cached"  # one constant Jacobian / Hessian object for every point
    Jv = (E.uf("J0_0") if const else E.uf("J0_0", xs)) if m else 0.0
    Hv = E.uf("H0_0") if const else E.uf("H0_0", xs, *ys)
    for v in (gv, cv, Jv, Hv):
        if core.is_sym(v):
            a = sabs(v)
            E.assume(lor(v == 0, land(a >= 2.0 ** (-W0), a <= 2.0 ** W0)))
    old = scale.np
    if kind == "KKT":
        scale.np = FrexpCounter(old, shape.get("unwind", 3))
    try:
        sc = scale.create_scaling(user, params, params.scaling_primal, params.scaling_dual)
    finally:
        scale.np = old
    common.check_snapshots(E, snaps, "C11.scaling_inputs_unchanged")
    if spec["handed"]:
        common.check_snapshots(E, spec["handed"], "C11.scaling_leaves_cached_callback_results_unchanged")
    vw, cw = items(sc.var_weights), items(sc.cons_weights)
    E.prove(is_int_weights(sc.var_weights) and is_int_weights(sc.cons_weights), "C20.weights_are_integers")
    E.prove(len(vw) == 1 and len(cw) == m, "C20.one_weight_per_variable_and_constraint")
    okp = True
    for (k, xa, ya, site) in spec["calls"]:
        okp = land(okp, xa[0] == xs)
        if ya is not None:
            okp = land(okp, len(ya) == m, *[ya[i] == ys[i] for i in range(min(m, len(ya)))])
    E.prove(okp, "C20.scaling_point_is_the_user_supplied_one")
    if kind == "Nominal":
        s = ld(xs, vw[0])
        E.prove(implies(xs != 0, land(sabs(s) >= 1.0, sabs(s) < 2.0)), "C20.nominal_values_normalised")
        if m:
            s = ld(cv, cw[0])
            E.prove(implies(cv != 0, land(sabs(s) >= 1.0, sabs(s) < 2.0)), "C20.nominal_values_normalised")
    elif kind == "GradJac":
        s = ld(gv, -vw[0])
        E.prove(implies(gv != 0, land(sabs(s) >= 1.0, sabs(s) < 2.0)), "C20.gradient_normalised")
        if m:
            s = sabs(ld(ld(Jv, -vw[0]), cw[0]))
            E.prove(implies(Jv != 0, land(s >= 1.0, s < 2.0)), "C20.jacobian_row_max_normalised")
    else:
        # KKT: columns of [[H, J^T], [J, 0]] scaled with D = (-var_weights, cons_weights)
        D = [-vw[0]] + list(cw)
        K = [[Hv, Jv], [Jv, 0.0]] if m else [[Hv]]
        N = len(K)
        for c in range(N):
            tot, s0, nz = 0.0, 0.0, False
            for r in range(N):
                if core.is_sym(K[r][c]):
                    tot = tot + sabs(ld(ld(K[r][c], D[r]), D[c]))
                    s0 = s0 + sabs(K[r][c])
                    nz = lor(nz, K[r][c] != 0)
            E.prove(implies(land(nz, s0 >= 1e-10), land(tot >= 1.0, tot < 4.0)), "C20.kkt_column_sums_in_1_4")
    if shape.get("reuse") and kind != "KKT":
        # the scaling is a function of the user's data: using it (evaluating the scaled problem, twice)
        # and asking again gives the same weights
        SP = scale.ScaledProblem(user, sc)
        xi = np_arr([ld(xs, vw[0])])
        for _ in range(2):
            SP.obj_grad(xi)
            if m:
                SP.cons_jac(xi)
            SP.lag_hess(xi, np_arr([0.0] * m))
        sc2 = scale.create_scaling(user, params, params.scaling_primal, params.scaling_dual)
        E.prove(common.eq_all(items(sc2.var_weights), vw) and common.eq_all(items(sc2.cons_weights), cw), "C20.scaling_is_a_function_of_the_problem_data")
