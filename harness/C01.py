"""C01  Optimal status implies first-order optimality of the user's own problem.

Three lemmas whose conjunction is the property for the sequential-homotopy solver, plus the
flow-integration solver's start gate:
  gate      (L1 loop harness)  status Optimal => the returned x,y,d are those of the last accepted
                               iterate and that iterate's total residual is <= opt_tol
  transfer  (array harness)    internal total residual <= opt_tol  =>  the user's KKT conditions
                               with the tolerances of the statement, for every scaling / row kind
  box       (C05)              iterates are inside the internal box (assumed here, proved there)
  integration                  IntegrationSolver declaring Optimal at its first gate; its bound / release
                               events against their definitions (the integration itself is outside)
"""
from . import kkt, loop

OWNED = ["C01.", "C12.result_is_last_accepted", "C12.final_is_last_accepted", "C05.fp64."]
REQUIRED = [
    "C01.gate.cons_violation", "C01.gate.stationarity", "C01.gate.bounds_exact", "C12.result_is_last_accepted.x", "C12.final_is_last_accepted",
    "C01.transfer.variable_bounds_hold_exactly", "C01.transfer.constraints_feasible_to_tolerance", "C01.transfer.stationarity_to_tolerance",
    "C01.transfer.multiplier_positive_only_at_upper_bound", "C01.transfer.multiplier_negative_only_at_lower_bound",
    "C01.transfer.bound_multiplier_nonzero_only_at_active_bound", "C01.transfer.bound_multiplier_sign",
    "C01.integration.variable_bounds_hold_exactly", "C01.integration.constraints_feasible_to_tolerance", "C01.integration.stationarity_to_tolerance",
    "C01.integration.release_event_watches_its_own_gradient_component", "C01.integration.one_release_event_per_pinned_variable",
]
META = dict(
    functions_encoded=loop.FUNCTIONS + kkt.FUNCTIONS + kkt.INTEG_FUNCTIONS,
    stubs=loop.STUBS + ["transfer/integration: user functions are fresh real symbols per distinct evaluation point (polynomial arithmetic)", "IntegrationSolver.perform_integration := abort (scipy BDF integration and event root finding are outside)"],
    assumptions=loop.LOOP_ASSUMPTIONS
    + [
        "transfer: the internal iterate lies in the internal box (C05) and weights |w| <= W are enumerated by forking",
        "tolerance table of DESIGN.md §6 C01: tau*2^-cw (feasibility), tau*2^(vw-ow) (stationarity), tau*2^(cw-ow) / (tau+alpha)*2^-cw (multiplier sign), alpha*2^-vw (bound multipliers)",
        "integration gate: active_tol >= 1e-10, opt_tol >= 1e-10 and |bounds| <= 1e3 (below that Flow.isclose's fixed 4*eps tolerance and the tolerances disagree; outside the claim)",
    ],
    bounds=dict(
        quick="gate: K=2, n=1, m<=1, 3 penalty policies; transfer: n<=2, m<=1, every variable/row kind at least once, W<=1; integration: n<=2, m<=1, first gate only",
        thorough="gate: K=3; transfer: n<=2, m<=2, W<=2; integration: all row kinds",
    ),
    outside=["the Converged-event route of IntegrationSolver (scipy root finding)", "rounding in the residual evaluation", "|weights| > W, n,m > 2"],
    explanation="Gate and transfer lemmas discharged per path by z3 (LRA+UF for the loop, nlsat for the transfer); the integration solver's start gate is checked against the same user-level oracle.",
)


def tasks(tier):
    q = tier == "quick"
    t = loop.loop_tasks([dict(policy=p, cons=c) for p, c in (("DualNorm", ["eq0"]), ("ObjectiveFilter", ["ge"]), ("Constant", []))], 2 if q else 3) + loop.loop_tasks([dict(policy="DualNorm", cons=["eq0"], vars=["boxed", "lower"]), dict(policy="DualNorm", cons=["ranged"], scaling=dict(vw=[2], cw=[-1], ow=1))], 2)
    o = dict(nra=True, timeout_ms=60000)
    if q:
        tr = [(["boxed"], ["ge"], 1, "coo"), (["free", "lower"], ["eqb"], 1, "csr"), (["upper", "fixed"], ["ranged"], 0, "csc"), (["boxed"], ["le"], 0, "coo"), (["lower"], ["eq0"], 1, "coo"), (["boxed", "boxed"], [], 1, "coo")]
    else:
        tr = [(["boxed"], ["ge"], 2, "coo"), (["free", "lower"], ["eqb"], 1, "csr"), (["upper", "fixed"], ["ranged"], 1, "csc"), (["boxed"], ["le"], 2, "coo"), (["lower"], ["eq0"], 2, "coo"),
              (["boxed", "boxed"], [], 1, "coo"), (["boxed"], ["ge", "eq0"], 1, "coo"), (["lower"], ["ranged", "le"], 1, "csr"), (["fixed", "free"], ["eqb", "ge"], 0, "coo")]
    for v, c, W, f in tr:
        t.append(dict(module="kkt", fn="h_transfer", shape=dict(vars=v, cons=c, W=W, fmt=f), opts=o))
    ig = [(["boxed"], []), (["lower"], ["eq0"]), (["boxed"], ["ge"]), (["free", "upper"], ["eqb"])]
    if not q:
        ig += [(["fixed", "lower"], ["ranged"]), (["boxed"], ["le"]), (["free"], ["eq0"])]
    for v, c in ig:
        t.append(dict(module="kkt", fn="h_integ", shape=dict(vars=v, cons=c), opts=o))
    # the integration solver's pin / release events (what keeps a variable at a bound until its
    # multiplier changes sign) against their definitions, arbitrary filter and states
    evs = [(["lower", "boxed"], ["eq0"]), (["boxed", "upper"], [])]
    if not q:
        evs += [(["boxed", "boxed", "lower"], ["eq0"]), (["free", "upper"], ["eq0", "eq0"])]
    for v, c in evs:
        t.append(dict(module="kkt", fn="h_events", shape=dict(vars=v, cons=c), opts=o))
    # "variable bounds hold exactly" is a statement about the floating-point point that is returned: the
    # clip kernel (StepResult._compute_xn / .iterate) bit-exactly in IEEE binary64 (z3 QF_FP)
    for k in ([["boxed"], ["lower", "upper"]] if q else [["boxed"], ["lower", "upper"], ["boxed", "boxed"]]):
        t.append(dict(module="fpk", fn="h_clip", shape=dict(n=len(k), vars=k), opts=dict(nra=True, timeout_ms=300000)))
    return t
