"""L3 harness: the four real step solvers + newton.py, with the linear solver replaced by an
exact-solve oracle (`solve(rhs)` returns ANY s with M s = rhs for the matrix the real code
assembled) that may also fail at construction or at any solve.

C14: the step (dx before clipping, dy) a step solver returns satisfies the dense reference
     Newton system F'(z) s = F(z) of the implicit-Euler residual for the active set it used.
C07: only StepSolverError ever leaves a step solver when the linear solver fails.
"""
from symx import boot, core
from symx.core import Abort, iff, implies, ite, land, lnot, lor, sabs, smax, smin

from . import common, defs
from .common import INF, arr, dense, items

SOLVERS = ["Standard", "Extended", "Symmetric", "Asymmetric"]
FUNCTIONS = [
    "pygradflow/step/solver/__init__.py:step_solver",
    "pygradflow/step/solver/step_solver.py:StepSolver.*, StepResult.*",
    "pygradflow/step/solver/standard_step_solver.py:StandardStepSolver.*",
    "pygradflow/step/solver/scaled_step_solver.py:ScaledStepSolver.*",
    "pygradflow/step/solver/extended_step_solver.py:ExtendedStepSolver.*",
    "pygradflow/step/solver/symmetric_step_solver.py:SymmetricStepSolver.*",
    "pygradflow/step/solver/asymmetric_step_solver.py:AsymmetricStepSolver.*",
    "pygradflow/newton.py:newton_method, SimplifiedNewtonMethod, FullNewtonMethod, ActiveSetNewtonMethod",
    "pygradflow/implicit_func.py:ImplicitFunc.*, ScaledImplicitFunc.*",
    "pygradflow/iterate.py:Iterate.aug_lag_deriv_*",
    "pygradflow/util.py:keep_rows",
]


class Recorder:
    def __init__(self):
        self.made = []  # (matrix rows, symmetric flag)
        self.solves = []  # (matrix rows, rhs, trans, solution)


def install_oracle(E, rec, faults=False, max_ok_solves=None):
    """pygradflow.linear_solver.linear_solver := oracle factory"""
    LS = boot.mod("linear_solver")
    LSm = boot.mod("linear_solver.linear_solver")
    np = boot.np

    class OracleSolver(LSm.LinearSolver):
        def __init__(self, mat, symmetric=False):
            super().__init__(mat, symmetric=symmetric)
            if faults and bool(E.fresh_bool("ls_factor_fails")):
                raise LSm.LinearSolverError("injected factorisation failure")
            self.rows = dense(mat)
            rec.made.append((self.rows, symmetric))

        def solve(self, rhs, trans=False, initial_sol=None):
            if faults and bool(E.fresh_bool("ls_solve_fails")):
                raise LSm.LinearSolverError("injected solve failure")
            if max_ok_solves is not None and len(rec.solves) >= max_ok_solves:
                raise Abort()  # bound: only failures of the later (condition-estimate) solves are explored
            r = items(rhs)
            M = self.rows
            n = len(M)
            if trans:
                M = [[M[j][i] for j in range(n)] for i in range(n)]
            replay = getattr(rec, "replay", None)
            if replay is not None and len(rec.solves) < len(replay):
                s = replay[len(rec.solves)]
                rec.solves.append((M, r, trans, s))
                return arr(s)
            s = [E.fresh_real("ls_sol") for _ in range(n)]
            if boot.MODE == "sym":
                for i in range(n):
                    E.assume(sum((M[i][j] * s[j] for j in range(n)), 0.0) == r[i])
            else:
                # replay: the recorded s is a solution of the recorded system; use the real LU on
                # the real matrix when it is (numerically) solvable, else the recorded vector
                import numpy as rnp

                Mf, rf, sf = rnp.array(M, dtype=float), rnp.array(r, dtype=float), rnp.array(s, dtype=float)
                if not (rnp.abs(Mf @ sf - rf).max(initial=0.0) <= 1e-9 * (1.0 + rnp.abs(rf).max(initial=0.0))):
                    try:
                        sol = rnp.linalg.solve(Mf, rf)
                        if rnp.isfinite(sol).all():
                            s = [float(v) for v in sol]
                    except Exception:
                        pass
            rec.solves.append((M, r, trans, s))
            return arr(s)

    def factory(mat, solver_type, symmetric=False):
        return OracleSolver(mat, symmetric=symmetric)

    LS.linear_solver = factory
    return OracleSolver


def spy_step_result():
    SR = boot.mod("step.solver.step_solver").StepResult
    if getattr(SR, "_symx_spy", False):
        return SR
    orig = SR._compute_xn

    def spy(self, dx):
        self.raw_dx = dx
        return orig(self, dx)

    SR._compute_xn = spy
    SR._symx_spy = True
    return SR


def setup(E, shape, faults=False, max_ok_solves=None):
    P = boot.mod("params")
    Iterate = boot.mod("iterate").Iterate
    user, spec = common.make_point_problem(E, shape["vars"], shape["cons"], fmt=shape.get("fmt", "coo"), memo=shape.get("memo", False))
    n, m = spec["n"], spec["m"]
    params = P.Params(
        step_solver_type=P.StepSolverType[shape["solver"]],
        newton_type=P.NewtonType[shape.get("newton", "Simplified")],
        validate_input=False,
        report_rcond=shape.get("report_rcond", False),
    )
    lb, ub = spec["xl"], spec["xu"]
    xh = []
    for j in range(n):
        v = E.real(f"xh{j}")
        E.assume(land(lb[j] <= v, v <= ub[j]))
        xh.append(v)
    yh = [E.real(f"yh{i}") for i in range(m)]
    rho = E.real("rho", lo=0, lo_strict=True)
    dt = E.real("dt", lo=0, lo_strict=True)
    lam = E.real("lamb", lo=0, lo_strict=True)
    E.assume(lam * dt == 1.0)
    if boot.MODE == "sym":
        dt.recip = lam
        lam.recip = dt
    else:
        lam = 1.0 / dt
    rec = Recorder()
    install_oracle(E, rec, faults, max_ok_solves)
    if shape.get("report_rcond"):
        # the estimator's arithmetic (random vectors, norms, repeated solves) is outside what the
        # solver can carry; its contract is kept: it returns a float or lets the LinearSolverError
        # of one of its solves through
        CE = boot.mod("step.cond_estimate")
        LSE = boot.mod("linear_solver.linear_solver").LinearSolverError

        def estimate(self):
            if bool(E.fresh_bool("rcond_solve_fails")):
                raise LSE("injected failure inside the condition estimate")
            return E.fresh_real("rcond")

        CE.ConditionEstimator.estimate_rcond = estimate
    spy_step_result()
    orig = Iterate(user, params, arr(xh), arr(yh))
    return dict(user=user, spec=spec, params=params, orig=orig, xh=xh, yh=yh, rho=rho, dt=dt, lam=lam, rec=rec, n=n, m=m)


def reference_system(ctx, x, y, mask):
    """dense F(z) and F'(z_hat) of the (unscaled) implicit-Euler residual, active set `mask`,
    base point (xh, yh); value at (x, y), derivative at the base point (simplified Newton)"""
    spec, rho, dt = ctx["spec"], ctx["rho"], ctx["dt"]
    n, m = ctx["n"], ctx["m"]
    lb, ub = spec["xl"], spec["xu"]
    R = defs.ref_point(spec, x, y, rho)
    Rh = defs.ref_point(spec, ctx["xh"], ctx["yh"], rho)
    p = [ctx["xh"][j] - dt * R["dLx"][j] for j in range(n)]
    proj = [ite(mask[j], smin(smax(p[j], lb[j]), ub[j]), p[j]) for j in range(n)]
    F = [x[j] - proj[j] for j in range(n)] + [y[i] - (ctx["yh"][i] + dt * R["c"][i]) for i in range(m)]
    D = [[0.0] * (n + m) for _ in range(n + m)]
    for a in range(n):
        for b in range(n):
            D[a][b] = (1.0 if a == b else 0.0) + ite(mask[a], 0.0, dt * Rh["Lxx"][a][b])
        for i in range(m):
            D[a][n + i] = ite(mask[a], 0.0, dt * Rh["J"][i][a])
    for i in range(m):
        for b in range(n):
            D[n + i][b] = -dt * Rh["J"][i][b]
        D[n + i][n + i] = 1.0
    return F, D


def h_step(E, shape):
    """first Newton step of each formulation against the dense reference system"""
    N = boot.mod("newton")
    SSE = boot.mod("step.step_solver_error").StepSolverError
    ctx = setup(E, shape)
    n, m = ctx["n"], ctx["m"]
    method = N.newton_method(ctx["user"], ctx["params"], ctx["orig"], ctx["dt"], ctx["rho"])
    step = method.step(ctx["orig"])
    mask = [bool(v) for v in items(step.active_set)]
    s = items(step.raw_dx) + items(step.dy)
    E.prove(len(s) == n + m, "C14.step_shape")
    F, D = reference_system(ctx, ctx["xh"], ctx["yh"], mask)
    ok = True
    for r in range(n + m):
        ok = land(ok, sum((D[r][c] * s[c] for c in range(n + m)), 0.0) == F[r])
    E.prove(ok, "C14.step_solves_reference_newton_system")
    E.prove(len(ctx["rec"].made) == 1 and len(ctx["rec"].solves) == 1, "C14.one_factorisation_one_solve")
    # the next iterate is the clipped step
    lb, ub = ctx["spec"]["xl"], ctx["spec"]["xu"]
    nx = items(step.iterate.x)
    E.prove(common.eq_all(nx, [smin(smax(ctx["xh"][j] - s[j], lb[j]), ub[j]) for j in range(n)]), "C14.next_point_is_clipped_step")
    E.prove(common.eq_all(items(step.iterate.y), [ctx["yh"][i] - s[n + i] for i in range(m)]), "C14.next_multiplier")


def h_second(E, shape):
    """second step of the simplified Newton method: matrix at the base point, residual at the
    current point (one factorisation, back-solves only)"""
    N = boot.mod("newton")
    ctx = setup(E, shape)
    n, m = ctx["n"], ctx["m"]
    Iterate = boot.mod("iterate").Iterate
    method = N.newton_method(ctx["user"], ctx["params"], ctx["orig"], ctx["dt"], ctx["rho"])
    lb, ub = ctx["spec"]["xl"], ctx["spec"]["xu"]
    x = []
    for j in range(n):
        v = E.real(f"x{j}")
        E.assume(land(lb[j] <= v, v <= ub[j]))
        x.append(v)
    y = [E.real(f"y{i}") for i in range(m)]
    cur = Iterate(ctx["user"], ctx["params"], arr(x), arr(y))
    step = method.step(cur)
    mask = [bool(v) for v in items(step.active_set)]
    s = items(step.raw_dx) + items(step.dy)
    F, D = reference_system(ctx, x, y, mask)
    ok = True
    for r in range(n + m):
        ok = land(ok, sum((D[r][c] * s[c] for c in range(n + m)), 0.0) == F[r])
    E.prove(ok, "C14.simplified_step_uses_base_matrix_and_current_residual")


def h_variants(E, shape):
    """Simplified, Full and ActiveSet Newton take the same first step: identical system handed
    to the linear solver"""
    N = boot.mod("newton")
    P = boot.mod("params")
    ctx = setup(E, shape)
    systems = []
    tau = None
    if shape.get("tau"):
        # caller-chosen active set: the projection point is taken with parameter tau instead of dt
        tau = E.real("tau", lo=0, lo_strict=True)
        spec, n = ctx["spec"], ctx["n"]
        Rh = defs.ref_point(spec, ctx["xh"], ctx["yh"], ctx["rho"])
        p = [ctx["xh"][j] - tau * Rh["dLx"][j] for j in range(n)]  # x == x_hat at the first step


        def wanted(s):  # s = lambda for the formulations working on the lambda-scaled residual
            lo = [s * l if l != -INF else -INF for l in spec["xl"]]
            hi = [s * u if u != INF else INF for u in spec["xu"]]
            return [lor(s * p[j] < lo[j] - 1e-8, s * p[j] > hi[j] + 1e-8) for j in range(n)]

    for nt in ("Simplified", "Full", "ActiveSet"):
        ctx["params"].newton_type = P.NewtonType[nt]
        ctx["rec"].made.clear()
        ctx["rec"].solves.clear()
        method = N.newton_method(ctx["user"], ctx["params"], ctx["orig"], ctx["dt"], ctx["rho"], tau)
        step = method.step(ctx["orig"])
        E.prove(len(ctx["rec"].solves) == 1, "C14.one_factorisation_one_solve")
        M, r, trans, s = ctx["rec"].solves[0]
        act = [bool(v) for v in items(step.active_set)]
        if tau is not None:
            want = wanted(ctx["lam"] if type(method.func).__name__ == "ScaledImplicitFunc" else 1.0)
            E.prove(land(*[iff(a, w) for a, w in zip(act, want)]), "C14.requested_active_set_is_used")
        systems.append((M, r, act))
    M0, r0, a0 = systems[0]
    for (M, r, a) in systems[1:]:
        ok = a == a0 and len(M) == len(M0)
        if ok:
            for i in range(len(M0)):
                ok = land(ok, r[i] == r0[i])
                for j in range(len(M0)):
                    ok = land(ok, M[i][j] == M0[i][j])
        E.prove(ok, "C14.newton_variants_same_first_system")


def h_faults(E, shape):
    """linear-solver failure at the factorisation or at the solve: only StepSolverError may
    leave the step solver"""
    N = boot.mod("newton")
    SSE = boot.mod("step.step_solver_error").StepSolverError
    LSE = boot.mod("linear_solver.linear_solver").LinearSolverError
    ctx = setup(E, shape, faults=True)
    try:
        method = N.newton_method(ctx["user"], ctx["params"], ctx["orig"], ctx["dt"], ctx["rho"])
        step = method.step(ctx["orig"])
        E.prove(True, "C07.step_without_failure")
    except SSE:
        E.prove(True, "C07.linear_solver_failure_becomes_step_solver_error")
    except LSE as e:
        E.prove(False, "C07.linear_solver_failure_becomes_step_solver_error", info=dict(site=core._site(e)))


def h_qp(E, shape):
    """quadratic objective, affine constraints: one Newton step with an unchanged active set
    (and no clipping) solves the implicit-Euler equation exactly"""
    P = boot.mod("params")
    N = boot.mod("newton")
    Iterate = boot.mod("iterate").Iterate
    user, spec = common.make_qp_problem(E, shape["vars"], shape["m"], fmt=shape.get("fmt", "coo"))
    n, m = spec["n"], spec["m"]
    params = P.Params(step_solver_type=P.StepSolverType[shape["solver"]], validate_input=False)
    lb, ub = spec["xl"], spec["xu"]
    xh = []
    for j in range(n):
        v = E.real(f"xh{j}")
        E.assume(land(lb[j] <= v, v <= ub[j]))
        xh.append(v)
    yh = [E.real(f"yh{i}") for i in range(m)]
    rho = E.real("rho", lo=0, lo_strict=True)
    dt = E.real("dt", lo=0, lo_strict=True)
    lam = E.real("lamb", lo=0, lo_strict=True)
    E.assume(lam * dt == 1.0)
    if boot.MODE == "sym":
        dt.recip = lam
        lam.recip = dt
    rec = Recorder()
    install_oracle(E, rec)
    spy_step_result()
    orig = Iterate(user, params, arr(xh), arr(yh))
    method = N.newton_method(user, params, orig, dt, rho)
    step = method.step(orig)
    mask = [bool(v) for v in items(step.active_set)]
    dx, dy = items(step.raw_dx), items(step.dy)
    xn = [xh[j] - dx[j] for j in range(n)]
    yn = [yh[i] - dy[i] for i in range(m)]
    nxt = Iterate(user, params, arr(xn), arr(yn))
    func = step_func = method.func
    IF = boot.mod("implicit_func")
    std = IF.ImplicitFunc(user, orig, dt)
    # unchanged active set: the projection argument of every active component stays beyond the
    # same bound, inactive components are not clipped
    p0 = items(std.projection_initial(orig, rho))
    p1 = items(std.projection_initial(nxt, rho))
    for j in range(n):
        if mask[j]:
            E.assume(lor(land(p0[j] < lb[j], p1[j] <= lb[j]), land(p0[j] > ub[j], p1[j] >= ub[j])))
    np = boot.np
    val = items(std.value_at(nxt, rho, np.array(mask, dtype=bool)))
    E.prove(land(*[v == 0.0 for v in val]), "C14.qp_one_step_solves_implicit_euler")



def h_rcond(E, shape):
    """C09: condition-number reporting does not change the computed step (the estimator is the
    contract stub: any float, or a LinearSolverError from one of its solves)"""
    N = boot.mod("newton")
    shape = dict(shape, report_rcond=True)
    ctx = setup(E, shape)
    outs = []
    for flag in (False, True):
        ctx["params"].report_rcond = flag
        ctx["rec"].made.clear()
        ctx["rec"].solves.clear()
        ctx["rec"].replay = [outs[0][4]] if outs else None
        method = N.newton_method(ctx["user"], ctx["params"], ctx["orig"], ctx["dt"], ctx["rho"])
        step = method.step(ctx["orig"])
        M, r, trans, s = ctx["rec"].solves[0]
        outs.append((M, r, items(step.raw_dx), items(step.dy), s, items(step.iterate.x), step.rcond))
    (M0, r0, dx0, dy0, s0, x0, rc0), (M1, r1, dx1, dy1, s1, x1, rc1) = outs
    ok = len(M0) == len(M1)
    if ok:
        for i in range(len(M0)):
            ok = land(ok, r0[i] == r1[i])
            for j in range(len(M0)):
                ok = land(ok, M0[i][j] == M1[i][j])
    E.prove(ok, "C09.rcond_reporting_same_linear_system")
    E.prove(land(common.eq_all(dx0, dx1), common.eq_all(dy0, dy1), common.eq_all(x0, x1)), "C09.rcond_reporting_same_step")
    E.prove(rc0 is None, "C09.no_rcond_unless_requested")


def h_globalized(E, shape):
    """C05 for the Armijo line search at ANY Newton iteration: one step of the Globalized Newton
    method from an arbitrary in-box Newton iterate (not the base point), exact arithmetic; every
    point at which a user function is evaluated, and the iterate handed back, lies in the box.
    The line search (30 trials in the code) is unwound `max_linesearch` trials."""
    N = boot.mod("newton")
    ctx = setup(E, dict(shape, newton="Globalized"))
    n, m = ctx["n"], ctx["m"]
    RealIterate = boot.mod("iterate").Iterate
    lb, ub = ctx["spec"]["xl"], ctx["spec"]["xu"]
    x = []
    for j in range(n):
        v = E.real(f"x{j}")
        E.assume(land(lb[j] <= v, v <= ub[j]))
        x.append(v)
    y = [E.real(f"y{i}") for i in range(m)]
    cur = RealIterate(ctx["user"], ctx["params"], arr(x), arr(y))
    method = N.newton_method(ctx["user"], ctx["params"], ctx["orig"], ctx["dt"], ctx["rho"])
    ls = dict(n=0)
    max_ls = shape.get("max_linesearch", 2)

    def counting(*a, **k):
        ls["n"] += 1
        if ls["n"] > max_ls:
            raise Abort()
        return RealIterate(*a, **k)

    ncalls = len(ctx["spec"]["calls"])
    N.Iterate = counting
    try:
        step = method.step(cur)
    finally:
        N.Iterate = RealIterate
    for c in ctx["spec"]["calls"][ncalls:]:
        E.prove(common.in_box(c[1], lb, ub), "C05.evaluation_point_in_box", info=dict(kind=c[0]))
    E.prove(common.in_box(items(step.iterate.x), lb, ub), "C05.trial_iterate_in_box")


def h_sequence(E, shape):
    """C14 beyond the first step: two consecutive Newton steps of one method object (first from the
    base point, then from an arbitrary in-box iterate, so that the active set may change in
    between).  Each returned step solves the reference system of its variant: Simplified / ActiveSet
    keep the matrix of the base point (ActiveSet with the active set of the current iterate), Full
    takes matrix and active set at the current iterate."""
    N = boot.mod("newton")
    P = boot.mod("params")
    nt = shape.get("newton", "ActiveSet")
    ctx = setup(E, dict(shape, newton=nt))
    n, m = ctx["n"], ctx["m"]
    Iterate = boot.mod("iterate").Iterate
    method = N.newton_method(ctx["user"], ctx["params"], ctx["orig"], ctx["dt"], ctx["rho"])
    lb, ub = ctx["spec"]["xl"], ctx["spec"]["xu"]
    first = method.step(ctx["orig"])
    x = []
    for j in range(n):
        v = E.real(f"x{j}")
        E.assume(land(lb[j] <= v, v <= ub[j]))
        x.append(v)
    y = [E.real(f"y{i}") for i in range(m)]
    cur = Iterate(ctx["user"], ctx["params"], arr(x), arr(y))
    pts = [(ctx["xh"], ctx["yh"], first), (x, y, method.step(cur))]
    for k, (px, py, step) in enumerate(pts):
        mask = [bool(v) for v in items(step.active_set)]
        sv = items(step.raw_dx) + items(step.dy)
        if nt == "Full" and k == 1:
            # matrix at the current iterate: the reference with the current point as its base for the
            # derivative (the flow's base point stays x_hat in the residual)
            F, _ = reference_system(ctx, px, py, mask)
            sub = dict(ctx, xh=px, yh=py)
            _, D = reference_system(sub, px, py, mask)
        else:
            F, D = reference_system(ctx, px, py, mask)
        ok = True
        for r in range(n + m):
            ok = land(ok, sum((D[r][c] * sv[c] for c in range(n + m)), 0.0) == F[r])
        E.prove(ok, "C14.consecutive_steps_solve_their_reference_systems", info=dict(step=k, newton=nt))


def h_owned(E, shape):
    """C11 at the step solvers: the matrices the user's callbacks returned (and keep) are unchanged
    after two Newton steps (derivative update, active-set update, factorisation, solve) of each
    formulation"""
    N = boot.mod("newton")
    nt = shape.get("newton", "Full")
    ctx = setup(E, dict(shape, newton=nt, memo=True))
    n, m = ctx["n"], ctx["m"]
    Iterate = boot.mod("iterate").Iterate
    method = N.newton_method(ctx["user"], ctx["params"], ctx["orig"], ctx["dt"], ctx["rho"])
    lb, ub = ctx["spec"]["xl"], ctx["spec"]["xu"]
    method.step(ctx["orig"])
    x = []
    for j in range(n):
        v = E.real(f"x{j}")
        E.assume(land(lb[j] <= v, v <= ub[j]))
        x.append(v)
    y = [E.real(f"y{i}") for i in range(m)]
    method.step(Iterate(ctx["user"], ctx["params"], arr(x), arr(y)))
    E.prove(len(ctx["spec"]["handed"]) > 0, "C11.step_solver_saw_callback_matrices")
    common.check_snapshots(E, ctx["spec"]["handed"], "C11.step_solvers_leave_callback_results_unchanged")


def h_large(E, shape):
    """C14 beyond toy sizes: n = 17 (by default) free variables and one equality row with CONCRETE
    derivative matrices (diagonal Hessian 2+j, Jacobian row j+1) and concrete dt, rho, but symbolic
    base point, multiplier, gradient and constraint value -- everything the solver sees is linear, so
    the returned first Newton step of each formulation is proved to solve the dense reference system.
    Sizes above 16 matter: numpy's default sort stops being stable there."""
    P = boot.mod("params")
    N = boot.mod("newton")
    Iterate = boot.mod("iterate").Iterate
    Problem = boot.mod("problem").Problem
    n, m = shape.get("n", 17), 1
    fmt = shape.get("fmt", "coo")
    g = [E.real(f"g{j}") for j in range(n)]
    c0 = E.real("c0")
    Hd = [2.0 + j for j in range(n)]
    Jr = [1.0 + j for j in range(n)]
    calls = []

    class Prob(Problem):
        def __init__(self):
            super().__init__(arr([-INF] * n), arr([INF] * n), cons_lb=arr([0.0]), cons_ub=arr([0.0]))

        def obj(self, x):
            return E.real("f0")

        def obj_grad(self, x):
            return arr(g)

        def cons(self, x):
            return arr([c0])

        def cons_jac(self, x):
            return common.make_sparse(fmt, (m, n), [(0, j, Jr[j]) for j in range(n)])

        def lag_hess(self, x, y):
            calls.append(items(y))
            return common.make_sparse(fmt, (n, n), [(j, j, Hd[j]) for j in range(n)])

    user = Prob()
    params = P.Params(step_solver_type=P.StepSolverType[shape["solver"]], newton_type=P.NewtonType[shape.get("newton", "Simplified")], validate_input=False)
    xh = [E.real(f"xh{j}") for j in range(n)]
    yh = [E.real("yh0")]
    rho, dt = 1.5, 0.5  # lambda = 2, 1/(1 + lambda*rho) = 1/4: every constant the solvers derive is dyadic (exact in binary64)
    rec = Recorder()
    install_oracle(E, rec)
    spy_step_result()
    orig = Iterate(user, params, arr(xh), arr(yh))
    method = N.newton_method(user, params, orig, dt, rho)
    step = method.step(orig)
    s = items(step.raw_dx) + items(step.dy)
    E.prove(len(s) == n + m and not any(bool(v) for v in items(step.active_set)), "C14.step_shape")
    # dense reference: F(z_hat) and F'(z_hat) of the implicit-Euler residual, empty active set
    mult = yh[0] + rho * c0
    dLx = [g[j] + Jr[j] * mult for j in range(n)]
    F = [dt * dLx[j] for j in range(n)] + [-(dt * c0)]
    ok = True
    for a in range(n):
        lhs = s[a] + dt * (Hd[a] * s[a] + rho * Jr[a] * sum((Jr[b] * s[b] for b in range(n)), 0.0)) + dt * Jr[a] * s[n]
        ok = land(ok, lhs == F[a])
    ok = land(ok, -dt * sum((Jr[b] * s[b] for b in range(n)), 0.0) + s[n] == F[n])
    E.prove(ok, "C14.step_solves_reference_newton_system", info=dict(n=n))
