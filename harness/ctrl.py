"""L2 harness: one call of the real StepController.compute_step (real controllers Exact / Fixed /
ResiduumRatio / DistanceRatio, LogController, all of newton.py, ImplicitFunc.value_at,
StepResult, ValidatingEvaluator) from an ARBITRARY state: any in-box iterate, rho > 0, dt > 0,
controller memory, clock -- one inductive step covers histories of any length.

The cut is the public hook Params.step_solver: an oracle StepSolver whose solve() returns ANY
(dx, dy) or raises StepSolverError; user callbacks are uninterpreted and may return non-finite
values at any call (symbolic fault schedule).
"""
from symx import boot, core
from symx.core import Abort, iff, implies, ite, land, lnot, lor, sabs, smax, smin

from . import common
from .common import INF, arr, dense, items

CONTROLLERS = ["Exact", "Fixed", "ResiduumRatio", "DistanceRatio"]
NEWTONS = ["Simplified", "Full", "ActiveSet", "Globalized"]
FUNCTIONS = [
    "pygradflow/step/step_control.py:StepController.compute_step, update_stepsize_after_fail, display_step, StepControlResult, step_controller",
    "pygradflow/step/newton_control.py:NewtonController.newton_steps, compute_tau, tau_vals",
    "pygradflow/step/exact_control.py:ExactController.step",
    "pygradflow/step/fixed_control.py:FixedStepSizeController.step",
    "pygradflow/step/residuum_ratio_control.py:ResiduumRatioController.step",
    "pygradflow/step/distance_ratio_control.py:DistanceRatioController.step",
    "pygradflow/controller.py:ControllerSettings, Controller, LogController",
    "pygradflow/newton.py:newton_method, SimplifiedNewtonMethod, FullNewtonMethod, ActiveSetNewtonMethod, GlobalizedNewtonMethod",
    "pygradflow/step/solver/__init__.py:step_solver (Params.step_solver hook)",
    "pygradflow/step/solver/step_solver.py:StepResult.{__init__,_compute_xn,iterate,diff}",
    "pygradflow/implicit_func.py:ImplicitFunc.{value_at,projection_initial,compute_active_set,project,deriv_at}",
    "pygradflow/iterate.py:Iterate.{__init__,check_eval,obj,obj_grad,cons,cons_jac,aug_lag_deriv_x,clipped}",
    "pygradflow/eval.py:ValidatingEvaluator.*",
    "pygradflow/timer.py:Timer.*",
]
STUBS = [
    "Params.step_solver := oracle StepSolver (real ImplicitFunc as func): solve(it) returns StepResult(it, dx, dy) for ARBITRARY dx, dy, or raises StepSolverError",
    "user Problem callbacks := uninterpreted functions of the evaluation point; any call may return a non-finite value (symbolic flag per call)",
    "math.log / math.exp := uninterpreted with exp > 0, monotonicity on occurring terms, exp(log v) = v",
    "pygradflow.timer.time := clock of fresh non-decreasing instants",
]


def make_faults(E, on):
    if not on:
        return None

    def faults(kind, v, idx):
        b = E.fresh_bool(f"bad_{kind}")
        if boot.MODE == "sym":
            return core.SR(core.zexpr(v), bad=b.e)
        return float("nan") if b else v

    return faults


def setup(E, shape):
    P = boot.mod("params")
    S = boot.mod("solver")
    SS = boot.mod("step.solver.step_solver")
    IF = boot.mod("implicit_func")
    SSE = boot.mod("step.step_solver_error").StepSolverError
    Iterate = boot.mod("iterate").Iterate
    np = boot.np
    ctl, nt = shape["controller"], shape.get("newton", "Simplified")
    vk, ck = shape.get("vars", ["boxed"]), shape.get("cons", [])
    user, spec = common.make_problem(E, vk, ck, faults=make_faults(E, shape.get("faults", False)))
    n, m = spec["n"], spec["m"]
    if shape.get("concrete_params") and shape.get("tame_box"):
        # replayable models: finite bounds of moderate size, boxes not thinner than 1/8
        for l, u in zip(spec["xl"], spec["xu"]):
            if l != -INF:
                E.assume(land(l >= -8.0, l <= 8.0))
            if u != INF:
                E.assume(land(u >= -8.0, u <= 8.0))
            if l != -INF and u != INF:
                E.assume(u - l >= 0.125)
    solves = []
    replay = dict(script=None, rcond=False, outs=[], beyond=False)
    max_solves = shape.get("max_solves", 3)

    class Oracle(SS.StepSolver):
        def __init__(self, problem, params, iterate, dt, rho):
            super().__init__(problem, params)
            # the real step solvers expose the plain residual function (Standard) or the
            # lambda-scaled one (Symmetric / Asymmetric / Extended); the oracle stands for either
            self._f = (IF.ScaledImplicitFunc if shape.get("scaled_func") else IF.ImplicitFunc)(problem, iterate, dt)
            self.dt = dt
            self.rho = rho

        func = property(lambda self: self._f)

        def update_active_set(self, a):
            self._active_set = a

        def update_derivs(self, it):
            pass

        def solve(self, it):
            k = len(solves)
            if k >= max_solves:
                raise Abort()  # bound on Newton iterations per trial step
            if replay["script"] is not None:
                if k >= len(replay["script"]):
                    replay["beyond"] = True
                    raise Abort()
                out = replay["script"][k]
            elif shape.get("solver_faults", True) and bool(E.fresh_bool(f"solve_fails")):
                out = "fail"
            else:
                out = ([E.fresh_real("dx") for _ in range(n)], [E.fresh_real("dy") for _ in range(m)])
            replay["outs"].append(out)
            if out == "fail":
                solves.append(("fail", it))
                raise SSE("injected step-solver failure")
            rc = None
            if replay["rcond"]:
                rc = E.fresh_real("rcond")  # a reported condition estimate: any positive number
                E.assume(rc > 0)
            r = SS.StepResult(it, arr(out[0]), arr(out[1]), self._active_set, rc)
            solves.append((r, it))
            return r

    cp = shape.get("concrete_params", False)  # concrete rho/dt/tolerances: linear products, replayable models
    newton_tol = 2.0 ** -10 if cp else E.real("newton_tol", lo=0, lo_strict=True)
    kw = dict(
        step_solver=Oracle,
        step_control_type=P.StepControlType[ctl],
        newton_type=P.NewtonType[nt],
        newton_tol=newton_tol,
    )
    if not cp:
        lamb_min = E.real("lamb_min", lo=0, lo_strict=True)
        kw.update(lamb_min=lamb_min)
    else:
        # dyadic tolerances large enough for boundary cases to exist on a coarse dyadic grid
        kw.update(active_tol=0.25, lamb_min=2.0 ** -20)
    if shape.get("lamb_params"):
        # non-default growth / reduction factors of the ratio controllers (the defaults 2 and 1/2 are reciprocal)
        kw.update(lamb_inc=shape["lamb_params"][0], lamb_red=shape["lamb_params"][1])
    ast = shape.get("active_set", "Standard")
    if ast != "Standard":
        kw["active_set_type"] = P.ActiveSetType[ast]
        if ast == "Explicit":
            kw["active_set_tau"] = 0.25 if cp else E.real("active_set_tau", lo=0, lo_strict=True)
    params = P.Params(**kw)
    clock = boot.Clock(E)
    boot.mod("timer").time = clock
    solver = S.Solver(user, params)
    problem = solver.problem
    lb, ub = items(problem.var_lb), items(problem.var_ub)
    x = []
    for j in range(problem.num_vars):
        v = E.real(f"x{j}")
        E.assume(land(lb[j] <= v, v <= ub[j]))
        x.append(v)
    y = [E.real(f"y{i}") for i in range(m)]
    if cp:
        rho, dt, lam = 2.0, 0.5, 2.0
    else:
        rho = E.real("rho", lo=0, lo_strict=True)
        dt = E.real("dt", lo=0, lo_strict=True)
        lam = E.real("lamb", lo=0, lo_strict=True)
        if boot.MODE == "sym":
            E.assume(core.SB(lam.e * dt.e == 1))
            dt.recip = lam
            lam.recip = dt
        else:
            lam = 1.0 / dt
    tl = INF
    if shape.get("time_limit"):
        tl = E.real("time_limit", lo=0, lo_strict=True)
    timer = boot.mod("timer").Timer(tl)
    it = Iterate(problem, params, arr(x), arr(y), solver.transform.evaluator)
    ncalls0 = len(spec["calls"])
    try:
        it.check_eval()  # the current iterate of a solve has been evaluated successfully
    except boot.mod("eval").EvalError:
        raise Abort()
    controller = boot.mod("step.step_control").step_controller(problem, params)
    if ctl in ("ResiduumRatio", "DistanceRatio"):
        controller.controller.controller.error_sum = E.real("pi_error_sum")
    rec = dict(raised=None)
    # unwinding bound for the Armijo line search of the Globalized Newton method (30 in the code)
    NW = boot.mod("newton")
    RealIterate = boot.mod("iterate").Iterate
    ls = dict(n=0)
    max_ls = shape.get("max_linesearch", 3)

    def counting_iterate(*a, **k):
        ls["n"] += 1
        if ls["n"] > max_ls:
            raise Abort()
        return RealIterate(*a, **k)

    NW.Iterate = counting_iterate
    orig_step = controller.step

    def step(*a, **k):
        try:
            return orig_step(*a, **k)
        except Exception as e:
            rec["raised"] = e
            raise

    controller.step = step
    orig_ce = Iterate.check_eval

    def check_eval(self):
        try:
            return orig_ce(self)
        except Exception as e:
            rec["raised"] = e
            raise

    Iterate.check_eval = check_eval
    def restore():
        Iterate.check_eval = orig_ce
        NW.Iterate = RealIterate

    rec["restore"] = restore
    return dict(replay=replay, E=E, user=user, spec=spec, params=params, solver=solver, problem=problem, lb=lb, ub=ub, x=x, y=y, rho=rho, dt=dt, lam=lam, timer=timer, clock=clock, it=it, controller=controller, rec=rec, solves=solves, n=n, m=m, tl=tl)


def ref_residual(ctx, nxt):
    """implicit-Euler residual of the projected augmented-Lagrangian flow at nxt w.r.t. the base
    iterate, written from the definition with the user's uninterpreted functions"""
    E, spec = ctx["E"], ctx["spec"]
    n, m = ctx["n"], ctx["m"]
    x, y = items(nxt.x), items(nxt.y)
    rho, dt = ctx["rho"], ctx["dt"]
    c = [E.uf(f"c{i}", *x) for i in range(m)]
    g = [E.uf(f"g{j}", *x) for j in range(n)]
    J = [[E.uf(f"J{i}_{j}", *x) for j in range(n)] for i in range(m)]
    dLx = [g[j] + sum((J[i][j] * (rho * c[i] + y[i]) for i in range(m)), 0.0) for j in range(n)]
    F = []
    for j in range(n):
        p = ctx["x"][j] - dt * dLx[j]
        F.append(x[j] - smin(smax(p, ctx["lb"][j]), ctx["ub"][j]))
    for i in range(m):
        F.append(y[i] - (ctx["y"][i] + dt * c[i]))
    return F


def h_step(E, shape):
    ctx = setup(E, shape)
    EV = boot.mod("eval")
    SSE = boot.mod("step.step_solver_error").StepSolverError
    p = ctx["params"]
    it, rho, dt, lam = ctx["it"], ctx["rho"], ctx["dt"], ctx["lam"]
    display = shape.get("display", False)
    import logging

    lg = logging.getLogger("gradflow")
    if shape.get("debug"):
        if not any(isinstance(h, logging.NullHandler) for h in lg.handlers):
            lg.addHandler(logging.NullHandler())
        lg.propagate = False
        lg.setLevel(logging.DEBUG)
    ncalls = len(ctx["spec"]["calls"])
    nreads = len(ctx["clock"].reads)
    try:
        r = ctx["controller"].compute_step(it, rho, dt, display, ctx["timer"])
    finally:
        ctx["rec"]["restore"]()
        lg.setLevel(logging.ERROR)
    raised = ctx["rec"]["raised"]
    E.prove(isinstance(r, boot.mod("step.step_control").StepControlResult), "C06.compute_step_always_returns_a_result")
    if ctx["tl"] != INF:
        # a deadline that expires at a clock read inside the step computation ends it without a step:
        # nothing half-computed is handed back as accepted
        expired = lor(False, *[t - ctx["timer"].start >= ctx["tl"] for t in ctx["clock"].reads[nreads:]])
        E.prove(implies(expired, land(not r.accepted, r.iterate is it)), "C08.deadline_inside_step_computation_yields_no_step")
    # ---- C05: every user-function evaluation and every iterate produced lies in the box
    for (kind, xs, ys, site) in ctx["spec"]["calls"][ncalls:]:
        E.prove(common.in_box(xs, ctx["lb"], ctx["ub"]), "C05.evaluation_point_in_box", info=dict(kind=kind, site=site))
    E.prove(common.in_box(items(r.iterate.x), ctx["lb"], ctx["ub"]), "C05.trial_iterate_in_box")
    # ---- C07 / C15 failure handling
    if raised is not None:
        E.prove(isinstance(raised, (SSE, EV.EvalError)), "C07.only_declared_failures_reach_compute_step")
        E.prove(r.iterate is it and not r.accepted, "C07.failed_trial_is_discarded")
        E.prove(r.lamb * dt == 2.0, "C15.failure_doubles_lambda")
        if ctx["tl"] != INF and "Time limit" in str(raised):
            E.prove(ctx["clock"].reads[-1] - ctx["timer"].start >= ctx["tl"], "C08.deadline_inside_newton_loop_only_after_deadline")
        return
    if not r.accepted:
        E.prove(r.lamb * dt > 1.0, "C15.rejected_trial_increases_lambda")
    else:
        # an accepted candidate has been evaluated completely and successfully
        nx = r.iterate
        bad = False
        for q in [nx.obj] + items(nx.obj_grad) + (items(nx.cons) + [v for row in dense(nx.cons_jac) for v in row] if ctx["m"] else []):
            if isinstance(q, core.SR) and q.bad is not None:
                bad = lor(bad, core.SB(q.bad))
            elif not core.is_sym(q) and q != q:
                bad = True
        E.prove(lnot(bad), "C07.accepted_iterate_is_finite_everywhere")
    E.prove(r.lamb > 0, "C15.lambda_stays_positive")
    if shape["controller"] == "Exact" and r.accepted:
        F = ref_residual(ctx, r.iterate)
        E.prove(land(*[sabs(v) <= p.newton_tol for v in F]), "C15.exact_accepted_solves_implicit_euler_to_newton_tol")
    if shape["controller"] == "Fixed":
        E.prove(r.accepted and r.lamb == p.lamb_init, "C15.fixed_controller_keeps_lambda")
    if r.accepted:
        # an accepted iterate is one of the candidates the step solver produced (clipped)
        E.prove(any(r.iterate is s[0].iterate for s in ctx["solves"] if s[0] != "fail") or shape.get("newton") == "Globalized", "C15.accepted_iterate_is_a_computed_candidate")


def ctrl_tasks(tier, extra=None):
    q = tier == "quick"
    o = dict(mulmode="uf", timeout_ms=10000)
    combos = [
        ("Exact", "Simplified", [], {}),
        ("Exact", "Full", ["eq0"], {}),
        ("DistanceRatio", "Simplified", ["eq0"], {}),
        ("DistanceRatio", "ActiveSet", [], {}),
        ("ResiduumRatio", "Simplified", [], {}),
        ("ResiduumRatio", "Full", ["eq0"], {}),
        ("Fixed", "Simplified", [], {}),
        ("Exact", "Globalized", [], dict(max_solves=2, max_linesearch=2, faults=False)),
        ("Exact", "Simplified", [], dict(time_limit=True)),
        ("Exact", "Simplified", [], dict(scaled_func=True)),
        ("Exact", "ActiveSet", [], dict(scaled_func=True, faults=False)),
        ("DistanceRatio", "Full", [], dict(scaled_func=True, faults=False)),
        ("DistanceRatio", "Simplified", [], dict(display=True, debug=True, faults=False)),
        ("Exact", "Simplified", [], dict(display=True, debug=True, faults=False)),
    ]
    if not q:
        combos += [
            ("Exact", "ActiveSet", ["eq0"], {}),
            ("DistanceRatio", "Full", ["eq0"], {}),
            ("ResiduumRatio", "ActiveSet", ["eq0"], {}),
            ("DistanceRatio", "Globalized", [], dict(max_solves=2, max_linesearch=3, faults=False)),
            ("Exact", "Globalized", ["eq0"], dict(max_solves=2, max_linesearch=2, faults=False)),
            ("Exact", "Full", ["eq0"], dict(time_limit=True)),
            ("ResiduumRatio", "Simplified", ["eq0"], dict(display=True, debug=True, faults=False)),
        ]
    t = []
    for c, nt, cons, kw in combos:
        sh = dict(controller=c, newton=nt, vars=["boxed"], cons=cons, faults=True)
        sh.update(kw)
        sh.update(extra or {})
        t.append(dict(module="ctrl", fn="h_step", shape=sh, opts=o))
        if not cons or not q:
            # twin with concrete rho / dt / tolerances: all products with them are linear, so a
            # counterexample found there replays on the real arithmetic
            t.append(dict(module="ctrl", fn="h_step", shape=dict(sh, concrete_params=True), opts=o))
    # two variables (mixed bound kinds): masks, clipping and norms over vectors
    for c, nt, v, cons in (("DistanceRatio", "Simplified", ["boxed", "free"], ["eq0"]), ("Exact", "Full", ["boxed", "lower"], []), ("ResiduumRatio", "ActiveSet", ["fixed", "upper"], ["eq0"])):
        sh = dict(controller=c, newton=nt, vars=v, cons=cons, faults=True)
        sh.update(extra or {})
        t.append(dict(module="ctrl", fn="h_step", shape=sh, opts=o))
    # growth / reduction factors that are not reciprocal (lamb_red = 1: no reduction after accepted steps)
    for c, lp in (("DistanceRatio", [4.0, 1.0]), ("ResiduumRatio", [4.0, 1.0]), ("DistanceRatio", [1.5, 0.25])):
        sh = dict(controller=c, newton="Simplified", vars=["boxed"], cons=[], faults=True, lamb_params=lp)
        sh.update(extra or {})
        t.append(dict(module="ctrl", fn="h_step", shape=sh, opts=o))
        if lp[1] == 1.0:
            t.append(dict(module="ctrl", fn="h_step", shape=dict(sh, concrete_params=True), opts=o))
    # active-set rules (explicit tau, smallest / largest active set)
    for ast, c, nt, cons in (("SmallestActiveSet", "DistanceRatio", "Simplified", []), ("LargestActiveSet", "DistanceRatio", "Simplified", []), ("Explicit", "Exact", "Full", []), ("SmallestActiveSet", "Exact", "ActiveSet", ["eq0"])):
        if q and cons:
            continue
        sh = dict(controller=c, newton=nt, vars=["boxed"], cons=cons, faults=False, active_set=ast)
        sh.update(extra or {})
        t.append(dict(module="ctrl", fn="h_step", shape=sh, opts=o))
        t.append(dict(module="ctrl", fn="h_step", shape=dict(sh, concrete_params=True), opts=o))
    if not q:
        for v in (["lower"], ["free"], ["fixed"]):
            t.append(dict(module="ctrl", fn="h_step", shape=dict(controller="DistanceRatio", newton="Simplified", vars=v, cons=["eq0"], faults=True), opts=o))
    return t


def h_rcond_effect(E, shape):
    """C09: a reported condition estimate is display data -- the same step computation with and
    without condition numbers attached to the step results gives the same decision"""
    ctx = setup(E, dict(shape, faults=False))
    SC = boot.mod("step.step_control")
    it, rho, dt = ctx["it"], ctx["rho"], ctx["dt"]
    try:
        r0 = ctx["controller"].compute_step(it, rho, dt, False, ctx["timer"])
        c2 = SC.step_controller(ctx["problem"], ctx["params"])
        if shape["controller"] in ("ResiduumRatio", "DistanceRatio"):
            c2.controller.controller.error_sum = E.real("pi_error_sum")
        ctx["replay"].update(script=list(ctx["replay"]["outs"]), rcond=True, outs=[])
        del ctx["solves"][:]
        r1 = c2.compute_step(it, rho, dt, False, ctx["timer"])
    finally:
        ctx["rec"]["restore"]()
    E.prove(not ctx["replay"]["beyond"], "C09.rcond_values_do_not_change_the_newton_iterations")
    E.prove(core.iff(bool(r0.accepted), bool(r1.accepted)) and (r0.accepted is None) == (r1.accepted is None), "C09.rcond_values_do_not_change_acceptance")
    E.prove(r0.lamb == r1.lamb, "C09.rcond_values_do_not_change_the_step_size")
    E.prove(land(common.eq_all(items(r0.iterate.x), items(r1.iterate.x)), common.eq_all(items(r0.iterate.y), items(r1.iterate.y))), "C09.rcond_values_do_not_change_the_iterate")


def h_display_effect(E, shape):
    """C09: the inner display is observation only -- the same step computation from the same
    controller memory with display off and with display on (DEBUG level, so that the inner rows are
    really formatted) returns the same result and leaves the same controller memory behind"""
    import logging

    from . import twin

    ctx = setup(E, dict(shape))
    SC = boot.mod("step.step_control")
    it, rho, dt = ctx["it"], ctx["rho"], ctx["dt"]
    c1 = ctx["controller"]
    c2 = SC.step_controller(ctx["problem"], ctx["params"])
    if shape["controller"] in ("ResiduumRatio", "DistanceRatio"):
        c2.controller.controller.error_sum = E.real("pi_error_sum")
    if hasattr(c1, "lamb"):
        # arbitrary controller memory left by earlier steps (the same in both runs)
        l0 = E.real("ctrl_lamb", lo=0, lo_strict=True)
        c1.lamb = l0
        c2.lamb = l0
    lg = logging.getLogger("gradflow")
    try:
        r0 = c1.compute_step(it, rho, dt, False, ctx["timer"])
        ctx["replay"].update(script=list(ctx["replay"]["outs"]), outs=[])
        del ctx["solves"][:]
        if not any(isinstance(h, logging.NullHandler) for h in lg.handlers):
            lg.addHandler(logging.NullHandler())
        lg.propagate = False
        if shape.get("debug", True):
            lg.setLevel(logging.DEBUG)
        r1 = c2.compute_step(it, rho, dt, True, ctx["timer"])
    finally:
        ctx["rec"]["restore"]()
        lg.setLevel(logging.ERROR)
    E.prove(not ctx["replay"]["beyond"], "C09.display_does_not_change_the_newton_iterations")
    E.prove(core.iff(bool(r0.accepted), bool(r1.accepted)), "C09.display_does_not_change_acceptance")
    E.prove(r0.lamb == r1.lamb, "C09.display_does_not_change_the_step_size")
    E.prove(land(common.eq_all(items(r0.iterate.x), items(r1.iterate.x)), common.eq_all(items(r0.iterate.y), items(r1.iterate.y))), "C09.display_does_not_change_the_iterate")
    s1, s2 = dict(twin.object_state(c1)), dict(twin.object_state(c2))
    E.prove(sorted(s1) == sorted(s2), "C09.display_leaves_the_same_controller_memory")
    E.prove(land(*[s1[k] == s2[k] for k in s1 if k in s2]), "C09.display_leaves_the_same_controller_memory")
    if shape.get("then_quiet"):
        # behavioural form of the same obligation: the next, undisplayed step computation (smaller step after a
        # failure / rejection, arbitrary otherwise) of the two controllers agrees -- whatever the displayed one kept
        dt2 = E.real("dt2", lo=0, lo_strict=True)
        nxt = r0.iterate
        ctx["replay"].update(script=None, outs=[], beyond=False)
        del ctx["solves"][:]
        try:
            q0 = c1.compute_step(nxt, rho, dt2, False, ctx["timer"])
            ctx["replay"].update(script=list(ctx["replay"]["outs"]), outs=[])
            del ctx["solves"][:]
            q1 = c2.compute_step(nxt, rho, dt2, False, ctx["timer"])
        finally:
            ctx["rec"]["restore"]()
        E.prove(not ctx["replay"]["beyond"], "C09.earlier_display_does_not_change_the_next_step")
        E.prove(land(core.iff(bool(q0.accepted), bool(q1.accepted)), q0.lamb == q1.lamb, common.eq_all(items(q0.iterate.x), items(q1.iterate.x)), common.eq_all(items(q0.iterate.y), items(q1.iterate.y))), "C09.earlier_display_does_not_change_the_next_step")
