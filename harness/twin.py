"""Self-composition harnesses on the real Solver.solve loop (L1 cut): two solves in one symbolic
execution against the SAME environment -- the user problem is the same uninterpreted functions,
and the step oracle of the second run replays the outputs the first run received (trial by
trial), so any difference in what the second run asks for, or returns, is visible to the solver.

  C08  h_prefix   B = A with an iteration limit k / a deadline: B's trials are A's prefix, B's
                  result is A's state at that moment
  C09  h_observe  B = A plus observers (display at every clock pattern, DEBUG logging,
                  callbacks, path collection): identical trials and result, no new failure
  C10  h_repeat   B = A again (same Solver object, and a fresh Solver afterwards): identical
"""
import logging
import types

from symx import boot, core
from symx.core import Abort, iff, implies, ite, land, lnot, lor, sabs, smax, smin

from . import common, loop
from .common import INF, arr, items

FUNCTIONS = loop.FUNCTIONS + ["pygradflow/display.py:StateData, Display.row, AttrColumn/ActiveSetColumn.content, formatters", "pygradflow/iterate.py:Iterate.obj_nonlin, cons_nonlin"]


def shared(E, shape):
    """the environment both runs see: problem, tolerances, start point"""
    pf = None
    if shape.get("point_faults"):
        # the objective / constraints may be non-finite at some points (a function of the point, so
        # both runs see the same failures); the step oracle's contract keeps accepted candidates finite
        def pf(kind, xs):
            if kind in ("obj", "cons"):
                return E.ufb("BAD_" + kind, *xs)
            return False

    user, spec = common.make_problem(E, shape.get("vars", ["boxed"]), shape.get("cons", []), fmt=shape.get("fmt", "coo"), point_faults=pf)
    kw = dict(
        opt_tol=E.real("opt_tol", lo=0, lo_strict=True),
        active_tol=E.real("active_tol", lo=0),
        local_infeas_tol=E.real("local_infeas_tol", lo=0),
        lamb_max=E.real("lamb_max", lo=1, lo_strict=True),
        rho=E.real("rho0", lo=0, lo_strict=True),
        obj_lower_limit=E.real("obj_lower_limit"),
    )
    x0 = []
    for j in range(spec["n"]):
        v = E.real(f"x0_{j}")
        E.assume(land(spec["xl"][j] <= v, v <= spec["xu"][j]))
        x0.append(v)
    y0 = [E.real(f"y0_{i}") for i in range(spec["m"])]
    return types.SimpleNamespace(E=E, user=user, spec=spec, kw=kw, x0=x0, y0=y0, pol=shape.get("policy", "DualNorm"), K=shape["K"], point_faults=bool(shape.get("point_faults")))


def solve_once(env, tag, overrides, script=None, solver=None, observers=None, x0_arr=None):
    """one real solve.  script=None: the oracle invents outputs (recorded); otherwise it replays
    the recorded outputs of the reference run"""
    E = env.E
    S = boot.mod("solver")
    P = boot.mod("params")
    Iterate = boot.mod("iterate").Iterate
    SCR = boot.mod("step.step_control").StepControlResult
    clock = boot.Clock(E, prefix=f"t{tag}_")
    boot.mod("timer").time = clock
    spy = loop.TimerSpy(boot.mod("timer").Timer.cls if isinstance(boot.mod("timer").Timer, loop.TimerSpy) else boot.mod("timer").Timer)
    S.Timer = spy
    kw = dict(env.kw)
    kw.update(penalty_update=P.PenaltyUpdate[env.pol], collect_path=False, time_limit=INF, display_interval=INF)
    kw.update({k: v for k, v in overrides.items() if not k.startswith("_")})
    if solver is None:
        params = P.Params(**kw)
        solver = S.Solver(env.user, params)
    params = solver.params
    prob = solver.problem
    lb, ub = items(prob.var_lb), items(prob.var_ub)
    run = types.SimpleNamespace(tag=tag, trials=[], cbs=[], clock=clock, spy=spy, params=params, solver=solver, res=None, exc=None, start=None, beyond=False, lb=lb, ub=ub)

    run.controller_state = None

    def oracle(controller, iterate, rho, dt, display, timer):
        if run.controller_state is None:
            run.controller_state = object_state(controller)  # memory of the step controller when the solve starts
        k = len(run.trials)
        if script is None:
            if k >= env.K:
                raise Abort()
            xs = []
            for j in range(prob.num_vars):
                v = E.fresh_real(f"ox{k}_")
                E.assume(land(lb[j] <= v, v <= ub[j]))
                xs.append(v)
            ys = [E.fresh_real(f"oy{k}_") for _ in range(prob.num_cons)]
            lam = E.fresh_real(f"olam{k}_")
            rec = E.fresh_real(f"odt{k}_")
            E.assume(lam > 0)
            E.assume(rec > 0)
            if boot.MODE == "sym":
                lam.recip = rec
                rec.recip = lam
            else:
                rec = 1.0 / lam
            accb = bool(E.fresh_bool(f"oacc{k}_"))
            out = (xs, ys, lam, rec, accb)
        else:
            if k >= len(script):
                run.beyond = True  # the second run wants a trial the reference run never made
                raise Abort()
            out = script[k]["out"]
        xs, ys, lam, rec, accb = out
        nxt = Iterate(prob, params, arr(xs), arr(ys), iterate.eval)
        if accb and env.point_faults:
            try:
                nxt.check_eval()  # compute_step only accepts candidates it evaluated successfully
            except boot.mod("eval").EvalError:
                raise Abort()
        run.trials.append(dict(it=iterate, x=items(iterate.x), y=items(iterate.y), rho=rho, dt=dt, out=out, nxt=nxt, acc=accb, display=display, checked_before=(clock.reads[-1] if clock.reads else None)))
        return SCR(nxt, lam, None, None, accb)

    solver._compute_step = oracle
    T = solver.transform
    orig_cti = T.__class__.create_transformed_iterate

    def cti(x0, y0):
        it = orig_cti(T, x0, y0)
        run.start = it
        return it

    T.create_transformed_iterate = cti
    if (observers and observers.get("callbacks")) or overrides.get("_record_callbacks"):
        CT = boot.mod("callbacks").CallbackType
        solver.callbacks.register(CT.ComputedStep, lambda it, nx, acc: run.cbs.append((it, nx, acc)))
    lg = logging.getLogger("gradflow")
    if observers and observers.get("debug"):
        if not any(isinstance(h, logging.NullHandler) for h in lg.handlers):
            lg.addHandler(logging.NullHandler())
        lg.propagate = False
        lg.setLevel(logging.DEBUG if observers["debug"] == "DEBUG" else logging.INFO)
    try:
        run.res = solver.solve(arr(env.x0) if x0_arr is None else x0_arr, arr(env.y0) if env.spec["m"] else None)
    except Exception as e:
        if "Inverse step size" in str(e) and type(e) is Exception:
            run.exc = "lamb_max"
        elif "Failed to evaluate initial iterate" in str(e) and type(e) is Exception and env.point_faults:
            run.exc = "initial_point"
        else:
            raise
    finally:
        lg.setLevel(logging.ERROR)
        try:
            del T.create_transformed_iterate
        except AttributeError:
            pass
    return run


def object_state(obj, depth=0, seen=None, prefix=""):
    """flat list of (path, scalar) for the scalar attributes reachable from obj through objects
    defined in pygradflow (problem / params / evaluator references are configuration, not memory)"""
    seen = seen if seen is not None else set()
    out = []
    if id(obj) in seen or depth > 4 or not hasattr(obj, "__dict__"):
        return out
    seen.add(id(obj))
    for k, v in sorted(vars(obj).items()):
        if k in ("problem", "params", "settings", "eval", "display", "res_func", "method"):
            continue
        if isinstance(v, (int, float, bool)) or core.is_sym(v):
            out.append((prefix + k, v))
        elif type(v).__module__.startswith("pygradflow"):
            out += object_state(v, depth + 1, seen, prefix + k + ".")
    return out


def same_trial(a, b):
    return land(common.eq_all(a["x"], b["x"]), common.eq_all(a["y"], b["y"]), a["rho"] == b["rho"], a["dt"] == b["dt"])


def result_terms(res):
    return items(res.x) + items(res.y) + items(res.d)


def compare_runs(E, env, A, B, pre, full=True):
    """B must be A (full=True) or a prefix of A"""
    E.prove(not B.beyond, pre + "second_run_makes_no_trial_the_reference_did_not")
    nb = len(B.trials)
    E.prove(nb <= len(A.trials), pre + "second_run_makes_no_trial_the_reference_did_not")
    ok = True
    for k in range(min(nb, len(A.trials))):
        ok = land(ok, same_trial(A.trials[k], B.trials[k]))
    E.prove(ok, pre + "trial_steps_identical")
    if full:
        E.prove(nb == len(A.trials), pre + "same_number_of_trials")
        E.prove((A.exc is None) == (B.exc is None), pre + "same_outcome_kind")
        if A.res is not None and B.res is not None:
            E.prove(A.res.status == B.res.status, pre + "same_status")
            E.prove(common.eq_all(result_terms(A.res), result_terms(B.res)), pre + "same_solution")
            E.prove(A.res.iterations == B.res.iterations and A.res.num_accepted_steps == B.res.num_accepted_steps, pre + "same_counters")


def h_repeat(E, shape):
    """C10: solve, solve again on the same Solver, then on a fresh Solver"""
    env = shared(E, shape)
    lim = dict(iteration_limit=env.K)
    A = solve_once(env, "a", lim)
    snap = {k: v for k, v in vars(A.params).items()}
    B = solve_once(env, "b", lim, script=A.trials, solver=A.solver)
    compare_runs(E, env, A, B, "C10.same_solver.")
    C = solve_once(env, "c", lim, script=A.trials)
    compare_runs(E, env, A, C, "C10.fresh_solver.")
    # the step controller (stubbed out by the oracle, so its memory cannot show in the trials)
    # starts every solve in the same state: step size, PI-controller sums, ...
    for X, nm in ((B, "same_solver"), (C, "fresh_solver")):
        sa, sx = A.controller_state or [], X.controller_state or []
        ok = len(sa) == len(sx)
        if ok:
            for (ka, va), (kx, vx) in zip(sa, sx):
                ok = land(ok, ka == kx, va == vx)
        E.prove(ok, f"C10.{nm}.step_controller_starts_in_the_same_state")
    same = all((vars(A.params)[k] is v) or (not core.is_sym(v) and vars(A.params)[k] == v) for k, v in snap.items())
    E.prove(same, "C10.params_object_not_modified")


def h_prefix(E, shape):
    """C08: a run limited to k iterations / by a deadline is a prefix of the unlimited run"""
    env = shared(E, shape)
    K = env.K
    Status = boot.mod("status").SolverStatus
    A = solve_once(env, "a", dict(iteration_limit=K))
    mode = shape.get("mode", "iterations")
    if mode == "iterations":
        k = E.int("k", 0, K)
        if shape.get("share_params"):
            # the way a user limits a run: set the limit on the Params object already in use and build
            # a new Solver with it
            A.params.iteration_limit = k
            sB = boot.mod("solver").Solver(env.user, A.params)
            B = solve_once(env, "b", dict(_record_callbacks=True), script=A.trials, solver=sB)
        else:
            B = solve_once(env, "b", dict(iteration_limit=k, _record_callbacks=True), script=A.trials)
    else:
        tl = E.real("time_limit", lo=0, lo_strict=True)
        B = solve_once(env, "b", dict(iteration_limit=K, time_limit=tl, _record_callbacks=True), script=A.trials)
    compare_runs(E, env, A, B, "C08.", full=False)
    if B.exc is not None or B.beyond:
        E.prove(A.exc is not None and len(B.trials) == len(A.trials), "C08.step_size_abort_only_where_the_reference_aborts")
        return
    nb = len(B.trials)
    res = B.res
    E.prove(res.iterations == nb, "C08.counters_consistent")
    if mode == "iterations":
        # a budget of k iterations means exactly k trial steps, unless the reference run ended earlier
        E.prove(lor(k == nb, land(nb == len(A.trials), k >= nb)), "C08.budget_k_means_exactly_k_trials")
    # A's state at that moment
    n = env.spec["n"]
    if nb < len(A.trials):
        cur = A.trials[nb]["it"]
    else:
        cur = None
    changes = 0
    c = A.start
    for i in range(nb):
        nxt_c = A.trials[i + 1]["it"] if i + 1 < len(A.trials) else None
        if nxt_c is None:
            # last trial of A: did A move?  A's result tells (its x is either c's or the candidate's)
            moved = A.trials[i]["acc"] and A.res is not None and A.res.num_accepted_steps == changes + 1
            nxt_c = A.trials[i]["nxt"] if moved else c
        if nxt_c is not c:
            changes += 1
        c = nxt_c
    E.prove(common.eq_all(items(res.x), items(c.x)[:n]), "C08.result_is_reference_state_at_that_moment.x")
    E.prove(common.eq_all(items(res.y), items(c.y)), "C08.result_is_reference_state_at_that_moment.y")
    E.prove(common.eq_all(items(res.d), items(c.bounds_dual)[:n]), "C08.result_is_reference_state_at_that_moment.d")
    E.prove(res.num_accepted_steps == changes, "C08.counters_consistent")
    if nb < len(A.trials):
        # B stopped although A went on: only a limit can be the reason
        E.prove(res.status in (Status.IterationLimit, Status.TimeLimit), "C08.early_stop_status_is_a_limit")
        if mode == "iterations":
            E.prove(res.status == Status.IterationLimit and k == nb, "C08.early_stop_status_is_a_limit")
        else:
            E.prove(res.status == Status.TimeLimit, "C08.early_stop_status_is_a_limit")
    elif A.res is not None:
        E.prove(res.status == A.res.status or res.status in (Status.IterationLimit, Status.TimeLimit), "C08.full_length_run_same_status_or_limit")
    # no rejected or partial trial point leaks: the result is one of the accepted states
    E.prove(c is A.start or any(c is t["nxt"] and t["acc"] for t in A.trials[:nb]), "C08.no_rejected_point_in_result")
    # ... also by the public account: the returned point is the start or the candidate of a step
    # that was announced as accepted to the ComputedStep callbacks of the limited run
    if len(B.cbs) == nb:
        xs = items(res.x)
        announced = [B.start] + [nx for (it, nx, acc) in B.cbs if acc]
        E.prove(lor(*[common.eq_all(xs, items(a.x)[:n]) for a in announced]), "C08.result_is_an_announced_accepted_point")
        E.prove(res.num_accepted_steps == sum(1 for (it, nx, acc) in B.cbs if acc), "C08.accepted_count_matches_announcements")


def h_observe(E, shape):
    """C09: observers do not perturb the computation"""
    env = shared(E, shape)
    A = solve_once(env, "a", dict(iteration_limit=env.K))
    di = E.real("display_interval", lo=0)
    obs = dict(callbacks=True, debug=shape.get("level", "DEBUG"))
    B = solve_once(env, "b", dict(iteration_limit=env.K, display_interval=di, collect_path=True), script=A.trials, observers=obs)
    compare_runs(E, env, A, B, "C09.")
    E.prove(len(B.cbs) == len(B.trials) - (1 if B.exc == "lamb_max" else 0), "C09.callbacks_see_every_trial")
    if B.res is not None and B.trials:
        E.reach("C09.displayed_and_undisplayed_rows")


def h_repeat_l2(E, shape):
    """C10 with the REAL step controllers: two solves on one Solver object with the oracle behind
    the public Params.step_solver hook; the second solve's step solver replays the first one's
    outputs by call index.  Controller / PI-controller memory that survived the first solve would
    change the step sizes the second solve asks for."""
    P = boot.mod("params")
    S = boot.mod("solver")
    SS = boot.mod("step.solver.step_solver")
    IF = boot.mod("implicit_func")
    SSE = boot.mod("step.step_solver_error").StepSolverError
    K = shape["K"]
    user, spec = common.make_problem(E, shape.get("vars", ["boxed"]), shape.get("cons", []))
    n, m = spec["n"], spec["m"]
    state = dict(run=None, script=None)
    max_solves = shape.get("max_solves", 4)

    class Oracle(SS.StepSolver):
        def __init__(self, problem, params, iterate, dt, rho):
            super().__init__(problem, params)
            self._f = IF.ImplicitFunc(problem, iterate, dt)
            state["run"]["made"].append(dict(x=items(iterate.x), y=items(iterate.y), dt=dt, rho=rho))

        func = property(lambda self: self._f)

        def update_active_set(self, a):
            self._active_set = a

        def update_derivs(self, it):
            pass

        def solve(self, it):
            run = state["run"]
            k = len(run["solves"])
            if state["script"] is None:
                if k >= max_solves:
                    raise Abort()
                fail = bool(E.fresh_bool("solve_fails")) if shape.get("faults", False) else False
                out = ("fail",) if fail else ([E.fresh_real("dx") for _ in range(n)], [E.fresh_real("dy") for _ in range(m)])
            else:
                if k >= len(state["script"]):
                    run["beyond"] = True
                    raise Abort()
                out = state["script"][k]["out"]
            run["solves"].append(dict(x=items(it.x), y=items(it.y), out=out))
            if out[0] == "fail":
                raise SSE("injected")
            return SS.StepResult(it, arr(out[0]), arr(out[1]), self._active_set, None)

    params = P.Params(
        step_solver=Oracle,
        step_control_type=P.StepControlType[shape["controller"]],
        iteration_limit=K,
        newton_tol=E.real("newton_tol", lo=0, lo_strict=True),
        opt_tol=E.real("opt_tol", lo=0, lo_strict=True),
        penalty_update=P.PenaltyUpdate[shape.get("policy", "DualNorm")],
        display_interval=INF,
    )
    boot.mod("timer").time = boot.Clock(E)
    solver = S.Solver(user, params)
    x0 = []
    for j in range(n):
        v = E.real(f"x0_{j}")
        E.assume(land(spec["xl"][j] <= v, v <= spec["xu"][j]))
        x0.append(v)
    y0 = [E.real(f"y0_{i}") for i in range(m)]
    Status = boot.mod("status").SolverStatus

    def only_limit(iterate, iteration, timer):
        # the termination tests are covered by the L1 composition; here only the budget ends a solve
        return Status.IterationLimit if iteration >= K else None

    runs = []
    for tag in ("a", "b"):
        run = dict(made=[], solves=[], beyond=False, res=None, exc=None)
        state["run"] = run
        state["script"] = None if tag == "a" else runs[0]["solves"]
        if tag == "b" and shape.get("fresh_solver"):
            solver = S.Solver(user, params)
        solver._check_terminate = only_limit
        try:
            run["res"] = solver.solve(arr(x0), arr(y0) if m else None)
        except Exception as e:
            if "Inverse step size" in str(e) and type(e) is Exception:
                run["exc"] = "lamb_max"
            else:
                raise
        runs.append(run)
    A, B = runs
    pre = "C10.real_controllers."
    E.prove(not B["beyond"] and len(B["made"]) == len(A["made"]) and len(B["solves"]) == len(A["solves"]), pre + "same_number_of_step_solver_calls")
    ok = True
    for a, b in zip(A["made"], B["made"]):
        ok = land(ok, common.eq_all(a["x"], b["x"]), common.eq_all(a["y"], b["y"]), a["dt"] == b["dt"], a["rho"] == b["rho"])
    E.prove(ok, pre + "same_trial_points_step_sizes_and_penalties")
    ok = True
    for a, b in zip(A["solves"], B["solves"]):
        ok = land(ok, common.eq_all(a["x"], b["x"]), common.eq_all(a["y"], b["y"]))
    E.prove(ok, pre + "same_newton_iterates")
    E.prove((A["exc"] is None) == (B["exc"] is None), pre + "same_outcome_kind")
    if A["res"] is not None and B["res"] is not None:
        E.prove(A["res"].status == B["res"].status and A["res"].iterations == B["res"].iterations and A["res"].num_accepted_steps == B["res"].num_accepted_steps, pre + "same_status_and_counters")
        E.prove(common.eq_all(result_terms(A["res"]), result_terms(B["res"])), pre + "same_solution")


def h_second_solve_penalty(E, shape):
    """C16 on a second solve of the same Solver object: the penalty sequence of that solve obeys the
    same rules, starting again from params.rho (nothing of the first solve's penalty survives)"""
    env = shared(E, shape)
    lim = dict(iteration_limit=env.K)
    A = solve_once(env, "a", lim)
    B = solve_once(env, "b", lim, script=A.trials, solver=A.solver)
    tr = B.trials
    if not tr:
        return
    p = B.params
    E.prove(tr[0]["rho"] == p.rho, "C16.second_solve.initial_rho_is_params_rho")
    for k, t in enumerate(tr):
        E.prove(t["rho"] > 0, "C16.second_solve.rho_positive")
        if k == 0:
            continue
        q = tr[k - 1]
        E.prove(t["rho"] >= q["rho"], "C16.second_solve.rho_monotone")
        if env.pol == "Constant":
            E.prove(t["rho"] == q["rho"], "C16.second_solve.constant_policy_never_changes")
        if env.pol == "DualNorm":
            if q["acc"]:
                yn = common.inf_norm(items(q["nxt"].y))
                E.prove(t["rho"] <= smax(q["rho"], yn), "C16.second_solve.dualnorm_bounded_by_multiplier_norm")
                E.prove(t["rho"] <= 10.0 * q["rho"], "C16.second_solve.dualnorm_at_most_tenfold")
            else:
                E.prove(t["rho"] == q["rho"], "C16.second_solve.rho_changes_only_on_accept")


def h_observers(E, shape):
    """C12 for observers that come and go between solves of one Solver: an observer registered
    before the first solve, one registered after it, one unregistered after it.  Every registered
    observer is told about every step computation of the solves it is registered for (count, start
    and end point, accept flag), an unregistered one about none."""
    env = shared(E, shape)
    lim = dict(iteration_limit=env.K)
    S = boot.mod("solver")
    P = boot.mod("params")
    CT = boot.mod("callbacks").CallbackType
    seen = dict(early=[], late=[], gone=[])
    state = dict(run=0)

    def obs(name):
        return lambda it, nx, acc: seen[name].append((state["run"], it, nx, acc))

    kw = dict(env.kw)
    kw.update(penalty_update=P.PenaltyUpdate[env.pol], collect_path=False, time_limit=INF, display_interval=INF, iteration_limit=env.K)
    solver = S.Solver(env.user, P.Params(**kw))
    solver.callbacks.register(CT.ComputedStep, obs("early"))
    h_gone = solver.callbacks.register(CT.ComputedStep, obs("gone"))
    A = solve_once(env, "a", lim, solver=solver)
    solver.callbacks.register(CT.ComputedStep, obs("late"))
    state["run"] = 1
    B = solve_once(env, "b", lim, script=A.trials, solver=solver)
    solver.callbacks.unregister(h_gone)
    state["run"] = 2
    C = solve_once(env, "c", lim, script=A.trials, solver=solver)
    for run_no, R in ((0, A), (1, B), (2, C)):
        want = dict(early=True, late=run_no >= 1, gone=run_no <= 1)
        for name, on in want.items():
            got = [s for s in seen[name] if s[0] == run_no]
            if not on:
                E.prove(len(got) == 0, "C12.unregistered_observer_is_not_called")
                continue
            # the deliberate step-size abort is raised before the callbacks of that trial
            expect = len(R.trials) - (1 if R.exc == "lamb_max" else 0)
            E.prove(len(got) == expect, "C12.iterations_equals_callbacks", info=dict(observer=name, run=run_no))
            if R.res is not None:
                E.prove(R.res.iterations == len(got), "C12.iterations_equals_callbacks", info=dict(observer=name, run=run_no))
            ok = True
            for g, t in zip(got, R.trials):
                ok = ok and (g[1] is t["it"]) and (g[2] is t["nxt"])
            E.prove(ok, "C12.callback_announces_this_step", info=dict(observer=name, run=run_no))


def h_restart_buffer(E, shape):
    """C10 "depends only on the starting point handed in": a multi-start loop that reuses ONE array
    for the start point -- solve, overwrite the array in place with another point, solve again on the
    same Solver.  The second solve starts from the transformed NEW point (and, the step oracle
    replaying by value, both solves are judged against the same reference)."""
    env = shared(E, shape)
    lim = dict(iteration_limit=env.K)
    n = env.spec["n"]
    buf = arr(env.x0)
    A = solve_once(env, "a", lim, x0_arr=buf)
    x1 = []
    for j in range(n):
        v = E.real(f"x1_{j}")
        E.assume(land(env.spec["xl"][j] <= v, v <= env.spec["xu"][j]))
        x1.append(v)
    buf[:] = arr(x1)
    B = solve_once(env, "b", lim, solver=A.solver, x0_arr=buf)
    if B.start is None:
        E.prove(False, "C10.second_solve_starts_from_the_point_handed_in", info="no start iterate was built")
        return
    E.prove(B.start is not A.start and common.eq_all(items(B.start.x)[:n], x1), "C10.second_solve_starts_from_the_point_handed_in")
    E.prove(common.eq_all(items(buf), x1), "C11.start_point_unchanged")
