"""C10  A solve is a deterministic function of its inputs, independent of history."""
from . import twin

OWNED = ["C10.", "C04.cons_jac", "C04.lag_hess", "C04.cons", "C04.obj_grad", "C04.obj"]
REQUIRED = ["C10.same_solver.trial_steps_identical", "C10.same_solver.same_solution", "C10.same_solver.same_status", "C10.fresh_solver.trial_steps_identical", "C10.fresh_solver.same_solution", "C10.params_object_not_modified", "C10.same_solver.step_controller_starts_in_the_same_state", "C10.fresh_solver.step_controller_starts_in_the_same_state", "C10.real_controllers.same_trial_points_step_sizes_and_penalties", "C10.real_controllers.same_newton_iterates", "C10.real_controllers.same_solution", "C10.linear_solver_call_independent_of_history", "C10.second_solve_starts_from_the_point_handed_in"]
META = dict(
    functions_encoded=twin.FUNCTIONS,
    stubs=["real-controller composition: two solves with the real step controllers, Newton methods and PI controller; the oracle sits behind the public Params.step_solver hook and the second solve replays its outputs by call index; termination reduced to the iteration budget (the termination tests are covered by the L1 composition)", "three solves in ONE symbolic execution: A on a new Solver, B on the same Solver object, C on a fresh Solver afterwards; the step oracle of B and C replays the outputs A received, the user problem is the same uninterpreted functions"],
    assumptions=twin.loop.LOOP_ASSUMPTIONS + ["the step controller is created inside solve() (checked by reading: solver.py) -- its memory is therefore per solve; the L1 oracle stands for it"],
    bounds=dict(quick="real controllers: K=2 trial steps per solve, n=1, <=4 Newton solves, DistanceRatio / ResiduumRatio / Exact; L1: K=2 trial steps per solve, n=1, m<=1, policies DualNorm, ObjectiveFilter, DualEquilibration", thorough="K=3, all six policies"),
    outside=["bit-identity in floating point", "state inside the compiled linear solvers"],
    explanation="Self-composition: the repeated and the fresh solve ask for identical trial steps (iterate, rho, dt terms) and return identical status / solution / counters on every path; the Params object is not modified.",
)


def tasks(tier):
    q = tier == "quick"
    o = dict(mulmode="uf", timeout_ms=20000)
    K = 2 if q else 3
    t = []
    for pol in ("DualNorm", "ObjectiveFilter", "DualEquilibration") if q else twin.loop.POLICIES:
        for cons in ([], ["eq0"]) if pol != "DualEquilibration" else (["eq0"],):
            t.append(dict(module="twin", fn="h_repeat", shape=dict(K=(2 if cons else K), policy=pol, vars=["boxed"], cons=cons), opts=o))  # constrained repeats at K=2 in both tiers (K=3: > 100 min)
    # the REAL step controllers (PI-controller memory, step-size memory) across two solves
    for c in ("DistanceRatio", "ResiduumRatio", "Exact"):
        for v, fresh in ((["boxed"], False), (["free"], True)):
            t.append(dict(module="twin", fn="h_repeat_l2", shape=dict(K=2, controller=c, vars=v, cons=[], max_solves=4 if q else 6, fresh_solver=fresh, faults=False), opts=o))
    if not q:
        # deeper / constrained variants, one each (K=3 with step-solver faults for all controllers did not finish in 35 min per task)
        # (a constrained real-controller repeat, K=2 / 4 solves, does not finish in 30 min on one core: outside the thorough tier)
        t.append(dict(module="twin", fn="h_repeat_l2", shape=dict(K=3, controller="DistanceRatio", vars=["boxed"], cons=[], max_solves=4, fresh_solver=False, faults=False), opts=o))
        t.append(dict(module="twin", fn="h_repeat_l2", shape=dict(K=2, controller="Exact", vars=["boxed"], cons=[], max_solves=4, fresh_solver=False, faults=True), opts=o))
    # no cache state in the scaling / slack layer between evaluations: the same Transformation
    # evaluated at a sequence of points whose sparsity patterns differ (same nnz), and at
    # callbacks handing out cached / memoised objects -- every evaluation equals the reference
    pbr = [dict(jac=[[0, 0]], hess=[[0, 0], [1, 1]]), dict(jac=[[0, 1]], hess=[[0, 1], [1, 0]]), dict(jac=[[0, 0]], hess=[[0, 0], [1, 1]])]
    for fmt in ("coo", "csr", "csc"):
        t.append(dict(module="xform", fn="h_transform", shape=dict(vars=["boxed", "lower"], cons=["ge"], W=2, fmt=fmt, rounds=3, patterns_by_round=pbr), opts=dict(exp_window=(-7, 7))))
    t.append(dict(module="xform", fn="h_transform", shape=dict(vars=["boxed"], cons=["eqb"], W=1, fmt="coo", policy="memo", rounds=3), opts=dict(exp_window=(-4, 4))))
    for pol, cons in (("DualNorm", ["eq0"]), ("Constant", [])):
        t.append(dict(module="twin", fn="h_restart_buffer", shape=dict(K=1, policy=pol, vars=["boxed"] if cons else ["boxed", "lower"], cons=cons), opts=o))
    # linear-solver wrappers: what reaches the library depends on this solve's arguments only (no state kept
    # on the class or carried from system to system)
    for kind in ("LU", "GMRES", "MINRES"):
        t.append(dict(module="linsol", fn="h_history", shape=dict(n=2, kind=kind, fmt="csr" if kind != "LU" else "csc"), opts={}))
    return t
