"""C07  Failures at trial points are survived and never accepted."""
from . import ctrl, loop, steps

OWNED = ["C07.", "C15.failure_doubles_lambda", "C15.iterate_kept_after_rejection", "C15.iterate_changes_only_to_accepted_candidate", "C01.gate.", "C17.unconverged_iteration_never_returns_a_vector", "C17.lu_factorisation_failure_is_linear_solver_error", "C17.error_only_when_the_iteration_reports_failure"]
REQUIRED = [
    "C07.only_declared_failures_reach_compute_step", "C07.failed_trial_is_discarded", "C07.accepted_iterate_is_finite_everywhere", "C15.failure_doubles_lambda",
    "C07.linear_solver_failure_becomes_step_solver_error", "C07.initial_point_failure_is_the_dedicated_error_before_any_step", "C07.solve_proceeds_only_from_a_finite_start", "C07.initial_error_iff_a_callback_fails_at_the_start",
    "C15.iterate_kept_after_rejection", "C01.gate.stationarity",
]
META = dict(
    functions_encoded=ctrl.FUNCTIONS + steps.FUNCTIONS[:7] + loop.FUNCTIONS[:3],
    stubs=ctrl.STUBS + ["L3: linear-solver oracle that may raise LinearSolverError at the factorisation or at any solve (symbolic)", "L1: any evaluation before the first trial step may be non-finite (symbolic)"],
    assumptions=["validate_input=True (the anchored mechanism)", "exact real arithmetic; 'non-finite' is a symbolic flag carried by the returned value and propagated through arithmetic", "the Optimal gate (C01.gate.*) is history independent: it is proved for an arbitrary step oracle, hence also after failures"],
    bounds=dict(quick="L2: one compute_step, fault position symbolic among all callback calls of the step and among <=3 step-solver solves, 4 controllers; L3: 4 step solvers, failure at factorisation or solve; L1: K=1..2, faults at the start", thorough="more controller/Newton combinations, K=3"),
    outside=["finiteness of returned x,y,d in floating point (whole-run float arithmetic)", "consecutive-failure bound lambda_max (C15)"],
    explanation="With a symbolic fault schedule, every path of the real compute_step returns the unchanged iterate object, accepted=False and doubled lambda after any failure; accepted candidates carry no fault flag on obj/grad/cons/jac; every step solver converts linear-solver failures into StepSolverError; a failing start gives the dedicated exception.",
)


def tasks(tier):
    q = tier == "quick"
    t = ctrl.ctrl_tasks(tier)
    o = dict(nra=True, timeout_ms=60000)
    for sv in steps.SOLVERS:
        t.append(dict(module="steps", fn="h_faults", shape=dict(vars=["boxed"], cons=["eq0"], solver=sv), opts=o))
        # with condition-number reporting: a failure of the first condition-estimate solve
        t.append(dict(module="steps", fn="h_faults", shape=dict(vars=["boxed"], cons=["eq0"], solver=sv, report_rcond=True), opts=o))
        if not q:
            t.append(dict(module="steps", fn="h_faults", shape=dict(vars=["boxed", "free"], cons=[], solver=sv, newton="Full"), opts=o))
    t += loop.loop_tasks([dict(policy="DualNorm", cons=["eq0"], start_faults=True), dict(policy="Constant", cons=[], start_faults=True)], 1 if q else 2)
    t += loop.loop_tasks([dict(policy="DualNorm", cons=["eq0"], start_point_faults=True), dict(policy="Constant", cons=[], vars=["lower", "free"], start_point_faults=True)], 1 if q else 2)
    t += loop.loop_tasks([dict(policy="DualNorm", cons=["eq0"])], 2 if q else 3)
    # where a linear-solver failure starts: the wrappers turn every failure the library reports (LU
    # RuntimeError, GMRES / MINRES info != 0) into LinearSolverError and never hand back a vector
    for kind in ("GMRES", "MINRES"):
        for guess in (False, True):
            t.append(dict(module="linsol", fn="h_krylov", shape=dict(n=2, kind=kind, trans=False, guess=guess, fmt="csr"), opts={}))
    t.append(dict(module="linsol", fn="h_lu", shape=dict(n=2, fmt="csc"), opts={}))
    return t
