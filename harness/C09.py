"""C09  Observation does not perturb the computation."""
from . import ctrl, steps, twin

OWNED = ["C09."]
REQUIRED = ["C09.earlier_display_does_not_change_the_next_step", "C09.display_does_not_change_acceptance", "C09.display_leaves_the_same_controller_memory", "C09.rcond_values_do_not_change_acceptance", "C09.rcond_values_do_not_change_the_step_size", "C09.rcond_values_do_not_change_the_iterate", "C09.rcond_reporting_same_linear_system", "C09.rcond_reporting_same_step", "C09.trial_steps_identical", "C09.same_solution", "C09.same_status", "C09.same_counters", "C09.same_number_of_trials", "C09.same_outcome_kind", "C09.callbacks_see_every_trial"]
META = dict(
    functions_encoded=twin.FUNCTIONS + ["(inner display) pygradflow/step/step_control.py:StepController.display_step, compute_step res_func", "pygradflow/display.py:inner_display"],
    stubs=["unobserved run A and observed run B in ONE symbolic execution (same uninterpreted problem, B's step oracle replays A's outputs); B: display_interval symbolic against a symbolic clock (every pattern of displayed rows), logging at DEBUG/INFO with a null handler, a recording ComputedStep callback, collect_path", "L2: real controllers with display=True at DEBUG level (inner per-Newton-step display)"],
    assumptions=twin.loop.LOOP_ASSUMPTIONS + ["string formatting of log records is not executed (logging swallows formatting errors by design); all argument expressions of the log calls are"],
    bounds=dict(quick="K=2 (K=1 with a constraint), n=1, m<=1, DualNorm / ObjectiveFilter; inner display: DistanceRatio, Exact, one compute_step; Exact: one displayed (possibly failing) compute_step followed by one undisplayed", thorough="K=3, all policies"),
    outside=["the arithmetic inside the condition estimator (random vectors, 2-norms, repeated exact solves did not terminate in the solver): it is replaced by its contract (returns a float or lets a LinearSolverError through); what is proved is that requesting the estimate leaves the linear system and the step unchanged", "byte-identity in floating point (exact reals here)"],
    explanation="Self-composition: the observed run asks for exactly the same trial steps and returns the same status, solution and counters on every path and every display pattern; no exception arises in the observed run (crash obligation), incl. the DEBUG-level inner display of the real controllers.",
)


def tasks(tier):
    q = tier == "quick"
    o = dict(mulmode="uf", timeout_ms=20000)
    K = 2 if q else 3
    t = []
    for pol in ("DualNorm", "ObjectiveFilter") if q else twin.loop.POLICIES:
        for cons in ([], ["eq0"]) if (pol == "DualNorm" or not q) else ([],):
            for level in ("DEBUG", "INFO") if pol == "DualNorm" else ("DEBUG",):
                t.append(dict(module="twin", fn="h_observe", shape=dict(K=(1 if q and cons else (2 if cons else K)), policy=pol, vars=["boxed"], cons=cons, level=level), opts=o))
    # rows with slack variables: the collected path lives in the internal space, the result in the user's
    for cons in (["ge"], ["ranged"]):
        t.append(dict(module="twin", fn="h_observe", shape=dict(K=1, policy="DualNorm", vars=["boxed"], cons=cons, level="INFO"), opts=o))
    # problem functions that are non-finite at some points: a displayed row evaluates the
    # rejected candidate too and must swallow the failure
    for cons in ([], ["eq0"]):
        t.append(dict(module="twin", fn="h_observe", shape=dict(K=(1 if q and cons else 2), policy="DualNorm", vars=["boxed"], cons=cons, level="DEBUG", point_faults=True), opts=o))
    for c, nt in (("DistanceRatio", "Simplified"), ("Exact", "Simplified"), ("ResiduumRatio", "Full")):
        t.append(dict(module="ctrl", fn="h_step", shape=dict(controller=c, newton=nt, vars=["boxed"], cons=[] if nt == "Simplified" else ["eq0"], faults=False, display=True, debug=True), opts=dict(mulmode="uf", timeout_ms=10000)))
    for c, nt in (("Exact", "Simplified"), ("DistanceRatio", "Simplified"), ("ResiduumRatio", "Full"), ("Fixed", "Simplified"), ("Exact", "ActiveSet")):
        t.append(dict(module="ctrl", fn="h_rcond_effect", shape=dict(controller=c, newton=nt, vars=["boxed"], cons=[], solver_faults=True), opts=dict(mulmode="uf", timeout_ms=10000)))
    for c, nt, f in (("Exact", "Simplified", False), ("DistanceRatio", "Simplified", True), ("ResiduumRatio", "Full", False), ("Fixed", "Simplified", True), ("Exact", "ActiveSet", True)):
        for dbg in (True, False):
            t.append(dict(module="ctrl", fn="h_display_effect", shape=dict(controller=c, newton=nt, vars=["boxed"], cons=[], faults=False, solver_faults=f, debug=dbg), opts=dict(mulmode="uf", timeout_ms=10000)))
    # a displayed (possibly failing) step computation followed by an undisplayed one
    t.append(dict(module="ctrl", fn="h_display_effect", shape=dict(controller="Exact", newton="Simplified", vars=["boxed"], cons=[], faults=False, solver_faults=True, debug=True, then_quiet=True), opts=dict(mulmode="uf", timeout_ms=10000)))
    if not q:
        t.append(dict(module="ctrl", fn="h_display_effect", shape=dict(controller="DistanceRatio", newton="Simplified", vars=["boxed"], cons=[], faults=False, solver_faults=True, debug=True, then_quiet=True), opts=dict(mulmode="uf", timeout_ms=10000)))
    for sv in steps.SOLVERS:
        t.append(dict(module="steps", fn="h_rcond", shape=dict(vars=["boxed"], cons=["eq0"], solver=sv), opts=dict(nra=True, timeout_ms=60000)))
    return t
