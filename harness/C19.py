"""C19  The derivative checker accepts correct derivatives and pinpoints wrong ones."""
from . import dcheck, loop

OWNED = ["C19.", "C12.first_step_starts_from_x0", "C12.step_starts_from_current_iterate", "C12.result_is_last_accepted", "C12.iterations_equals_trials", "C16.initial_rho_is_params_rho", "C15.first_dt_is_1_over_lamb_init"]
REQUIRED = [
    "C19.pass_implies_all_entries_within_tolerance", "C19.correct_derivatives_pass", "C19.error_identifies_exactly_the_wrong_rows_and_column",
    "C19.single_wrong_entry_is_pinpointed", "C19.solver_check_pass_implies_derivatives_within_tolerance", "C19.solver_check_accepts_correct_derivatives",
    "C19.solver_check_error_location", "C19.check_leaves_the_start_point_unchanged", "C19.derivative_error_is_raised_before_the_first_step", "C19.check_does_not_modify_its_point",
]
META = dict(
    functions_encoded=dcheck.FUNCTIONS + ["(solve with deriv_check=CheckAll) " + f for f in loop.FUNCTIONS[:3]],
    stubs=["the differentiated function is uninterpreted (its values at x and at each x + eps*e_i are arbitrary reals); derivative entries arbitrary reals", "L1 step oracle for the 'solve is unaffected' part"],
    assumptions=[
        "exact real arithmetic: (x+eps)-eps = x, finite differences exact",
        "'correct derivative of a well-scaled smooth f' is taken to mean |d - fd| <= deriv_tol for the forward difference fd the checker forms (Taylor bound eps*|f''|/2 + 2u|f|/eps, not re-proved); 'the checker's tolerance' is numpy.allclose's atol + 1e-5*|fd|",
    ],
    bounds=dict(quick="m,n <= 2; dense gradient (m=1) and sparse COO/CSR/CSC Jacobian incl. missing entries; Solver._deriv_check with n=m=1, unscaled and under two custom power-of-two scalings (reference-scaled functions as oracle); one K=2 solve with the check enabled", thorough="m,n <= 3"),
    outside=["floating-point cancellation in the finite difference", "dense derivative arrays with m > 1 rows (not produced by Solver._deriv_check)"],
    explanation="Every path of the real checker over arbitrary function values: pass => all entries within the checker's tolerance; all entries within deriv_tol => pass; a raised DerivError names exactly the violating rows of the first violating column; Solver._deriv_check differences f against grad f, c against J, and grad f + J^T y (y fixed) against the Hessian at (x,y); a solve with the check enabled starts from the unchanged point.",
)


def tasks(tier):
    t = [
        dict(module="dcheck", fn="h_deriv", shape=dict(m=1, n=2, fmt="dense", scalar=True)),
        dict(module="dcheck", fn="h_deriv", shape=dict(m=1, n=1, fmt="dense", scalar=False)),
        dict(module="dcheck", fn="h_deriv", shape=dict(m=2, n=2, fmt="csr")),
        dict(module="dcheck", fn="h_deriv", shape=dict(m=2, n=2, fmt="coo", pattern=[[0, 0], [1, 1]])),
        dict(module="dcheck", fn="h_deriv", shape=dict(m=2, n=1, fmt="csc")),
    ]
    for w in ("CheckAll", "CheckFirst", "CheckSecond", "NoCheck"):
        t.append(dict(module="dcheck", fn="h_solver", shape=dict(which=w), opts=dict(nra=True)))
    # the check runs on the problem the solver actually differences: under a custom scaling, the reference-scaled functions (C04)
    for w, sc in (("CheckAll", dict(vw=2, cw=-1, ow=3)), ("CheckSecond", dict(vw=-1, cw=2, ow=-2))):
        t.append(dict(module="dcheck", fn="h_solver", shape=dict(which=w, scaling=sc), opts=dict(nra=True)))
    if tier != "quick":
        t.append(dict(module="dcheck", fn="h_solver", shape=dict(which="CheckAll", scaling=dict(vw=-3, cw=1, ow=1), fmt="csr"), opts=dict(nra=True)))
        t.append(dict(module="dcheck", fn="h_deriv", shape=dict(m=3, n=2, fmt="csr")))
        t.append(dict(module="dcheck", fn="h_deriv", shape=dict(m=2, n=3, fmt="csc")))
        t.append(dict(module="dcheck", fn="h_deriv", shape=dict(m=1, n=3, fmt="dense", scalar=True)))
    t += loop.loop_tasks([dict(policy="DualNorm", cons=["eq0"], deriv_check=True)], 2 if tier == "quick" else 3)
    t += loop.loop_tasks([dict(policy="DualNorm", cons=["eq0"], deriv_check=True, second_solve=True), dict(policy="Constant", cons=[], vars=["boxed", "lower"], deriv_check=True, second_solve=True)], 1)
    return t
