"""C17 harness: the linear-solver wrappers (LUSolver, GMRESSolver, MINRESSolver, dispatch) with
scipy.sparse.linalg.{splu, gmres, minres} replaced by contract stubs.  What is decided is the
wrapper's half of the property: failures become LinearSolverError, never a returned vector;
the vector that is returned is the library's answer for the REQUESTED system (matrix or its
transpose, right-hand side, initial guess).  The numerical accuracy of SuperLU / GMRES / MINRES
themselves is compiled code and is not decided here."""
from symx import boot, core
from symx.core import Abort, iff, implies, ite, land, lnot, lor, sabs, smax, smin

from . import common
from .common import INF, arr, dense, items

FUNCTIONS = [
    "pygradflow/linear_solver/__init__.py:linear_solver",
    "pygradflow/linear_solver/linear_solver.py:LinearSolver, LinearSolverError",
    "pygradflow/linear_solver/lu_solver.py:LUSolver.*",
    "pygradflow/linear_solver/gmres_solver.py:GMRESSolver.*",
    "pygradflow/linear_solver/minres_solver.py:MINRESSolver.*",
]


def matrix(E, n, fmt, symmetric=False):
    ent = []
    vals = [[None] * n for _ in range(n)]
    for i in range(n):
        for j in range(n):
            if symmetric and j < i:
                vals[i][j] = vals[j][i]
            else:
                vals[i][j] = E.real(f"M{i}_{j}")
            ent.append((i, j, vals[i][j]))
    return common.make_sparse(fmt, (n, n), ent), vals


def resid(M, s, b, trans=False):
    n = len(b)
    out = []
    for i in range(n):
        out.append(sum(((M[j][i] if trans else M[i][j]) * s[j] for j in range(n)), 0.0) - b[i])
    return out


def install_scipy_stubs(E, log, exact_krylov=False):
    la = boot.sp.sparse.linalg

    class SuperLU:
        def __init__(self, mat, stable=True):
            self.M = dense(mat)
            self.stable = stable

        def solve(self, rhs, trans="N"):
            b = items(rhs)
            s = [E.fresh_real("lu_sol") for _ in b]
            if boot.MODE == "sym" and self.stable:
                for r in resid(self.M, s, b, trans == "T"):
                    E.assume(r == 0.0)  # SuperLU contract on a nonsingular matrix (exact arithmetic)
            log.append(("lu.solve", self.M, b, trans, s))
            return arr(s)

    def splu(mat, permc_spec=None, diag_pivot_thresh=None, relax=None, panel_size=None, options=None):
        if bool(E.fresh_bool("splu_fails")):
            raise RuntimeError("Factor is exactly singular")
        log.append(("splu", dense(mat)))
        # the accuracy half of the contract (backward-stable solve) is SuperLU's with partial pivoting,
        # its default; with relaxed pivoting (threshold < 1, symmetric mode) nothing is promised
        relaxed = (diag_pivot_thresh is not None and diag_pivot_thresh != 1.0) or bool((options or {}).get("SymmetricMode")) or bool((options or {}).get("DiagPivotThresh", 1.0) != 1.0)
        return SuperLU(mat, stable=not relaxed)

    def krylov(name):
        def solve(mat, rhs, x0=None, maxiter=None, atol=None, **kw):
            b = items(rhs)
            s = [E.fresh_real(f"{name}_sol") for _ in b]
            info = E.int(E.fresh_name(f"{name}_info"), -1, 2)
            if exact_krylov and boot.MODE == "sym":
                for r in resid(dense(mat), s, b):
                    E.assume(lor(info != 0, r == 0.0))  # converged (info == 0) means: solves the system it was given
            log.append((name, dense(mat), b, None if x0 is None else items(x0), s, info, atol, maxiter))
            return arr(s), info

        return solve

    la.splu = splu
    la.gmres = krylov("gmres")
    la.minres = krylov("minres")


def h_lu(E, shape):
    LS = boot.mod("linear_solver")
    P = boot.mod("params")
    n = shape["n"]
    log = []
    install_scipy_stubs(E, log)
    sym = shape.get("symmetric", False)
    mat, M = matrix(E, n, shape.get("fmt", "csc"), symmetric=sym)
    b = [E.real(f"b{i}") for i in range(n)]
    try:
        solver = LS.linear_solver(mat, P.LinearSolverType.LU, symmetric=True) if sym else LS.linear_solver(mat, P.LinearSolverType.LU)
    except LS.LinearSolverError:
        E.prove(not any(l[0] == "splu" for l in log), "C17.lu_factorisation_failure_is_linear_solver_error")
        return
    E.prove(any(l[0] == "splu" for l in log), "C17.lu_factorisation_failure_is_linear_solver_error")
    for trans in (False, True):
        s = items(solver.solve(arr(b), trans=trans))
        E.prove(land(*[r == 0.0 for r in resid(M, s, b, trans)]), "C17.lu_solves_the_requested_system")
    E.prove(common.eq_all([v for row in dense(mat) for v in row], [v for row in M for v in row]), "C17.matrix_not_modified")


def h_krylov(E, shape):
    LS = boot.mod("linear_solver")
    P = boot.mod("params")
    n = shape["n"]
    kind = shape["kind"]
    log = []
    install_scipy_stubs(E, log)
    sym = kind == "MINRES"
    mat, M = matrix(E, n, shape.get("fmt", "csr"), symmetric=sym)
    b = [E.real(f"b{i}") for i in range(n)]
    solver = LS.linear_solver(mat, P.LinearSolverType[kind], symmetric=sym) if sym else LS.linear_solver(mat, P.LinearSolverType[kind])
    trans = shape.get("trans", False)
    guess = None
    g = None
    if shape.get("guess"):
        g = [E.real(f"g{i}") for i in range(n)]
        guess = lambda: arr(g)
    try:
        s = items(solver.solve(arr(b), trans=trans, initial_sol=guess))
    except LS.LinearSolverError:
        call = [l for l in log if l[0] == kind.lower()]
        E.prove(len(call) == 1 and bool(call[0][5] != 0) if call else False, "C17.error_only_when_the_iteration_reports_failure")
        return
    call = [l for l in log if l[0] == kind.lower()]
    if not call:
        # early return on the initial guess: only if it already solves the requested system
        E.prove(g is not None and common.eq_all(s, g), "C17.early_return_is_the_initial_guess")
        if g is not None:
            E.prove(common.inf_norm(resid(M, g, b, trans)) < 1e-8, "C17.early_return_only_if_guess_solves_requested_system")
        return
    name, Mgot, bgot, x0got, sol, info, atol, maxiter = call[0]
    E.prove(info == 0, "C17.unconverged_iteration_never_returns_a_vector")
    E.prove(common.eq_all(s, sol), "C17.returns_the_library_solution")
    okM = True
    for i in range(n):
        for j in range(n):
            okM = land(okM, Mgot[i][j] == (M[j][i] if trans else M[i][j]))
    E.prove(okM, "C17.iteration_runs_on_the_requested_matrix")
    E.prove(common.eq_all(bgot, b), "C17.iteration_gets_the_right_hand_side")
    if g is not None:
        E.prove(x0got is not None and common.eq_all(x0got, g), "C17.initial_guess_forwarded")
    else:
        E.prove(x0got is None, "C17.initial_guess_forwarded")


def h_dispatch(E, shape):
    LS = boot.mod("linear_solver")
    P = boot.mod("params")
    log = []
    install_scipy_stubs(E, log)
    mat, M = matrix(E, 1, "csc", symmetric=True)
    want = dict(LU="LUSolver", GMRES="GMRESSolver", MINRES="MINRESSolver")
    for k, cls in want.items():
        try:
            s = LS.linear_solver(mat, P.LinearSolverType[k], symmetric=True)
        except LS.LinearSolverError:
            continue
        E.prove(type(s).__name__ == cls and isinstance(s, LS.LinearSolver), "C17.dispatch")
    try:
        LS.linear_solver(mat, P.LinearSolverType.MINRES)
        E.prove(False, "C17.minres_requires_symmetric")
    except AssertionError:
        E.prove(True, "C17.minres_requires_symmetric")


def h_estimator(E, shape):
    """C06: the real ConditionEstimator driving each real linear-solver wrapper (library calls by
    contract stub, converged Krylov iterations exact): every call the estimator makes is one the
    wrapper accepts, its own assertion holds, and the only thing that leaves is a number or a
    LinearSolverError"""
    LS = boot.mod("linear_solver")
    P = boot.mod("params")
    CE = boot.mod("step.cond_estimate")
    n = shape["n"]
    kind = shape["kind"]
    log = []
    install_scipy_stubs(E, log, exact_krylov=True)
    sym = kind == "MINRES" or shape.get("symmetric", False)
    mat, M = matrix(E, n, shape.get("fmt", "csc"), symmetric=sym)
    params = P.Params(linear_solver_type=P.LinearSolverType[kind])
    try:
        solver = LS.linear_solver(mat, P.LinearSolverType[kind], symmetric=sym)
    except LS.LinearSolverError:
        raise Abort()
    est = CE.ConditionEstimator(mat, solver, params)
    want = est._required_its()
    E.prove(want > 0, "C06.estimator_iteration_count_positive")
    est._required_its = lambda: shape.get("its", 1)  # unwinding bound on the power iteration
    try:
        r = est.estimate_rcond()
    except LS.LinearSolverError:
        E.prove(True, "C06.estimator_failure_is_a_linear_solver_error")
        return
    E.prove(land(r >= 0.0, boot.np.isfinite(r)) if core.is_sym(r) else (r >= 0.0 and r == r and r != INF), "C06.reported_rcond_is_a_nonnegative_number")
    E.prove(common.eq_all([v for row in dense(mat) for v in row], [v for row in M for v in row]), "C17.matrix_not_modified")


def h_history(E, shape):
    """C10 / C17: what a linear-solver wrapper hands to the library depends on this solve's arguments
    only -- not on earlier solves of the same object, of other objects of the class, or of other
    systems.  Two systems, three solves: (A, b1), again on the same object (A, b2), then a new
    object on (B, b3) without a guess; each library call is compared with its own request."""
    LS = boot.mod("linear_solver")
    P = boot.mod("params")
    n = shape["n"]
    kind = shape["kind"]
    log = []
    install_scipy_stubs(E, log, exact_krylov=True)
    sym = kind == "MINRES"
    fmt = shape.get("fmt", "csr")

    def named_matrix(tag):
        ent, vals = [], [[None] * n for _ in range(n)]
        for i in range(n):
            for j in range(n):
                vals[i][j] = vals[j][i] if (sym and j < i) else E.real(f"{tag}{i}_{j}")
                ent.append((i, j, vals[i][j]))
        return common.make_sparse(fmt, (n, n), ent), vals

    def make(mat):
        return LS.linear_solver(mat, P.LinearSolverType[kind], symmetric=True) if sym else LS.linear_solver(mat, P.LinearSolverType[kind])

    A, MA = named_matrix("A")
    B, MB = named_matrix("B")
    name = dict(LU="lu.solve", GMRES="gmres", MINRES="minres")[kind]
    pairs = []

    def ncalls():
        return len([l for l in log if l[0] == name])

    def do(solver, M, b, g):
        before = ncalls()
        solver.solve(arr(b), initial_sol=(lambda: arr(g)) if g is not None else None)
        if ncalls() > before:  # else: early return on the guess
            pairs.append((M, b, g, [l for l in log if l[0] == name][before]))

    try:
        s1 = make(A)
        do(s1, MA, [E.real(f"b1_{i}") for i in range(n)], [E.real(f"g1_{i}") for i in range(n)] if kind != "LU" else None)
        do(s1, MA, [E.real(f"b2_{i}") for i in range(n)], None)
        s2 = make(B)
        do(s2, MB, [E.real(f"b3_{i}") for i in range(n)], None)
    except LS.LinearSolverError:
        pass
    for (M, b, g, c) in pairs:
        if kind == "LU":
            _, Mgot, bgot, trans, sol = c
            x0got = None
        else:
            _, Mgot, bgot, x0got, sol, info, atol, maxiter = c
        okM = True
        for i in range(n):
            for j in range(n):
                okM = land(okM, Mgot[i][j] == M[i][j])
        E.prove(okM, "C10.linear_solver_call_independent_of_history", info="matrix")
        E.prove(common.eq_all(bgot, b), "C10.linear_solver_call_independent_of_history", info="rhs")
        if g is None:
            E.prove(x0got is None, "C10.linear_solver_call_independent_of_history", info="no initial guess was given")
        else:
            E.prove(x0got is not None and common.eq_all(x0got, g), "C10.linear_solver_call_independent_of_history", info="guess")
