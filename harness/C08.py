"""C08  Stopping early returns exactly a prefix of the unlimited run."""
from . import ctrl, twin

OWNED = ["C08."]
REQUIRED = [
    "C08.trial_steps_identical", "C08.second_run_makes_no_trial_the_reference_did_not", "C08.result_is_reference_state_at_that_moment.x", "C08.result_is_reference_state_at_that_moment.y",
    "C08.result_is_reference_state_at_that_moment.d", "C08.counters_consistent", "C08.budget_k_means_exactly_k_trials", "C08.early_stop_status_is_a_limit", "C08.no_rejected_point_in_result", "C08.result_is_an_announced_accepted_point", "C08.accepted_count_matches_announcements", "C08.deadline_inside_newton_loop_only_after_deadline", "C08.deadline_inside_step_computation_yields_no_step",
]
META = dict(
    functions_encoded=twin.FUNCTIONS + ["(deadline inside the Newton loop) " + f for f in ctrl.FUNCTIONS[:3]],
    stubs=["reference run A and limited run B execute in ONE symbolic execution: same uninterpreted user problem; B's step oracle replays the outputs A received, trial by trial", "clock of fresh non-decreasing instants per run (deadline position symbolic)", "L2: deadline between two Newton iterations of the real ExactController"],
    assumptions=twin.loop.LOOP_ASSUMPTIONS + ["the unlimited run is represented by a run limited to K trial steps"],
    bounds=dict(quick="K=2 trial steps, n=1, m<=1, policies DualNorm / ObjectiveFilter, iteration budget k in [0,K] symbolic, deadline anywhere in the clock-read sequence", thorough="K=3, all six policies"),
    outside=["wall-clock effects other than through time.time", "runs longer than K"],
    explanation="Self-composition: every trial B asks for equals A's trial at the same index (iterate, rho, dt terms), B's result equals A's current iterate at that moment, status is a limit status, counters agree; the mid-Newton deadline of ExactController yields an unaccepted result (L2).",
)


def tasks(tier):
    q = tier == "quick"
    o = dict(mulmode="uf", timeout_ms=20000)
    K = 2 if q else 3
    t = []
    pols = ("DualNorm", "ObjectiveFilter") if q else twin.loop.POLICIES
    for pol in pols:
        for cons in ([], ["eq0"]):
            for mode in ("iterations", "time"):
                if q and pol != "DualNorm" and (cons or mode == "time"):
                    continue
                t.append(dict(module="twin", fn="h_prefix", shape=dict(K=(2 if pol in twin.loop.HEAVY and cons else K), policy=pol, vars=["boxed"], cons=cons, mode=mode), opts=o))
    # the limited run uses the reference run's own Params object (limit set on it, new Solver)
    for pol, cons in (("DualNorm", ["eq0"]), ("ObjectiveFilter", [])) if q else (("DualNorm", ["eq0"]), ("ObjectiveFilter", []), ("DualEquilibration", ["eq0"]), ("LagrangianFilter", ["eq0"])):
        t.append(dict(module="twin", fn="h_prefix", shape=dict(K=2, policy=pol, vars=["boxed"], cons=cons, mode="iterations", share_params=True), opts=o))
    for nt, cons in (("Simplified", []), ("Full", ["eq0"])):
        t.append(dict(module="ctrl", fn="h_step", shape=dict(controller="Exact", newton=nt, vars=["boxed"], cons=cons, faults=False, time_limit=True), opts=dict(mulmode="uf", timeout_ms=10000)))
    return t
