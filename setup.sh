#!/bin/sh
# Builds the checking environment offline: a venv overlay on /venv (numpy/scipy + the repo's deps)
# plus z3-solver and cvc5 from the local wheelhouse.  Idempotent.
set -e
cd "$(dirname "$0")"
if [ -x .venv/bin/python ] && .venv/bin/python -c "import z3, numpy, scipy" 2>/dev/null; then
  exit 0
fi
rm -rf .venv
/venv/bin/python -m venv .venv
SP=$(.venv/bin/python -c "import sysconfig; print(sysconfig.get_paths()['purelib'])")
printf "import site; site.addsitedir('/venv/lib/python3.12/site-packages')\n" > "$SP/zz_venv_overlay.pth"
PIP_NO_INDEX=1 .venv/bin/python -m pip install -q --no-index --find-links /opt/veriftools/wheels z3-solver cvc5 >/dev/null
.venv/bin/python -c "import z3, numpy, scipy; print('symx env ok: z3', z3.get_version_string(), 'numpy', numpy.__version__, 'scipy', scipy.__version__)"
