"""tools/onetask.py <module> <fn> '<shape-json>' '<opts-json>'  -- run one harness task in-process (debugging aid)"""
import json, sys, os, time
sys.path.insert(0, os.path.dirname(os.path.dirname(os.path.abspath(__file__))))
from symx import run

alias = run._alias_table()
res = run._worker((sys.argv[1], sys.argv[2], json.loads(sys.argv[3]), json.loads(sys.argv[4]) if len(sys.argv) > 4 else {}, alias, 0, 0))
print(json.dumps({k: v for k, v in res.items() if k in ("stats", "errors", "wall_s")}, indent=1, default=str)[:3000])
for oid, o in sorted(res.get("obligations", {}).items()):
    print(oid, {k: v for k, v in o.items() if k in ("checked", "proved", "failed", "unknown")})
for oid, o in sorted(res.get("obligations", {}).items()):
    for c in (o.get("cex") or o.get("counterexamples") or [])[:3]:
        print("CEX", oid, c.get("info") if isinstance(c, dict) else c)
print([k for k in res.get("obligations", {}).get("nocrash", {}).keys()])
