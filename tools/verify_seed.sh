#!/bin/sh
# tools/verify_seed.sh <out-dir with patch.diff + demo.py>  -- confirm a seeded change myself in a scratch copy:
# demo passes without / fails with the change, the 209 baseline tests still pass with it
D=$(cd "$1" && pwd)
S=/var/tmp/pgf-vs-$$
rm -rf $S && mkdir -p $S && rsync -a --exclude .git /repo/ $S/
sed -E "s#/tmp/seed[0-9]*/C[0-9]+\b#$S#g" $D/demo.py > $S/_demo.py
(cd $S && timeout 900 /venv/bin/python _demo.py > /dev/null 2>&1); a=$?
(cd $S && patch -p1 -s < $D/patch.diff) || { echo "patch failed"; rm -rf $S; exit 3; }
(cd $S && timeout 900 /venv/bin/python _demo.py > $S/_demo.out 2>&1); b=$?
rm -f $S/_demo.py
t=$(python3 /verif/tools/baseline.py $S | head -1)
echo "seed $D: demo without=$a with=$b ; $t ; last demo line: $(tail -1 $S/_demo.out | cut -c1-160)"
rm -rf $S
