#!/bin/sh
# tools/revert.sh <commit> <prop> [tier] -- run a check on a scratch copy of /repo with one fix commit reverted
S=/var/tmp/pgf-mut
rm -rf $S && mkdir -p $S && rsync -a --exclude .git /repo/ $S/
git -C /repo show $1 | (cd $S && patch -R -p1 -s) || exit 3
cd /verif && SYMX_REPO=$S ./check $2 --tier ${3:-quick} | grep -E "^\[|VIOL|INCONC|KNOWN|obligation=|non-repro" | cut -c1-260 | head -12
rm -rf $S
