#!/usr/bin/env python3
"""Regenerates /verif/MANIFEST.json from the table below (and validates it when jsonschema
is importable).  The table is the single place where a check is registered."""
import json
import os
import sys

VERIF = os.path.dirname(os.path.dirname(os.path.abspath(__file__)))
TECH = "symbolic execution of the real source on a symbolic numpy/scipy model; every path decided by z3 (bounded); counterexamples replayed on the real code"

CHECKS = {
    "C18": dict(
        text="Bounded model checking of the real PenaltyFilter code: all paths for every sequence of N<=4 (thorough 5) insertions from the empty filter plus one inductive update from an arbitrary antichain of k<=3 (thorough 4) entries, every obligation (refuse<=>dominated, removed==dominated set, rho rule, antichain) discharged by z3 over exact reals; counterexamples replayed on the real code.",
        note="Exact real arithmetic (NaN/inf coordinates outside); bounds N,k as stated; the iterate handed to the filter is a record of arbitrary reals; z3 and the 150-line executor symx/core.py are trusted.",
        ref="DESIGN.md §6 C18",
    ),
}

L1 = "Bounded model checking of the real Solver.solve loop (termination tests, penalty strategies, callbacks, path, result assembly, Transformation, evaluator) over a symbolic user problem, clock, limits and tolerances, with Solver._compute_step replaced by an arbitrary step oracle (over-approximates every controller/Newton/step-solver/linear-solver choice); all paths for <= K trial steps (quick K=2, thorough K=3..4), n=1, m<=1; "
L1NOTE = "Exact real arithmetic, symbolic*symbolic products uninterpreted (sign facts), 2-norms abstracted by valid linear facts; bounds K, n=1, m<=1; the oracle contract (in-box iterate, lambda>0) is the StepController.compute_step contract; z3 + symx executor + numpy/scipy model trusted, model cross-checked by concrete replay of every counterexample."
CHECKS.update(
    C02=dict(text=L1 + "status justification (LocallyInfeasible / Unbounded / IterationLimit / TimeLimit) re-evaluated per path by an oracle written from the statement.", note=L1NOTE + " IntegrationSolver is outside (anchors name solver.py).", ref="DESIGN.md §6 C02"),
    C12=dict(text=L1 + "counter / callback / path / model-time / distance-factor obligations proved per path against the oracle's own log, all six penalty policies incl. filter vetoes.", note=L1NOTE, ref="DESIGN.md §6 C12"),
    C15=dict(text=L1 + "lambda hand-over between trials, abort only at lamb_max, iterate kept unless accepted.", note=L1NOTE + " The controllers' own accept/reject rules are the L2 part (added when built).", ref="DESIGN.md §6 C15"),
    C16=dict(text=L1 + "rho argument of successive trials positive, monotone, constant under the constant policy, DualNorm bounds; solver.rho read inside callbacks.", note=L1NOTE, ref="DESIGN.md §6 C16"),
)

ARR = "Symbolic execution of the real Transformation / ScaledProblem / ConstrainedProblem / evaluator code at symbolic internal points, multipliers and integer power-of-two weights (|w|<=W) over an uninterpreted user problem in COO/CSR/CSC; "
CHECKS.update(
    C04=dict(text=ARR + "objective, gradient, constraints, Jacobian, Hessian and bounds proved equal, term by term, to the reference transformation written from the statement; UF congruence pins the evaluation points/multipliers handed to the user; round trip and slack start proved. n<=2, m<=1 (thorough m<=2, W=3).", note="Exact reals with v*2^e tables (bit-exactness of power-of-two scaling in binary64 absent overflow is an FP lemma, not re-derived per path); custom weights; bounds n,m<=2, |w|<=W; numpy/scipy model trusted, cross-checked by concrete replay.", ref="DESIGN.md §6 C04"),
    C11=dict(text=ARR + "z3-term snapshots of every caller-owned array and of every cached/memoised callback result compared after each entry point (3 evaluation rounds incl. a cache hit, transform/restore, start iterate); values returned on cache hits still equal the reference transformation. scipy share/copy table measured on the installed scipy at every run.", note="Aliasing model of numpy/scipy (measured table in evidence) trusted; policies: cached constant J/H, memoised per point; n=m=1 quick, n,m<=2 thorough; a whole solve's iteration machinery is outside this check.", ref="DESIGN.md §6 C11"),
)

CHECKS.update(
    C13=dict(text="Symbolic execution of the real Iterate / ActiveSet / ImplicitFunc / ScaledImplicitFunc / keep_rows code at arbitrary points (inside, on, outside the bounds), multipliers, rho>0, dt>0 and arbitrary symbolic active sets; every public quantity proved equal (z3 nlsat) to the dense mathematical definition written from the statement, incl. the Hessian multiplier y+rho*c through a multiplier-linear Hessian model. n<=2, m<=1 (thorough m<=2), COO/CSR/CSC.", note="Exact polynomial real arithmetic (rounding outside); user functions are fresh symbols per distinct evaluation point; bounds n<=2, m<=2; numpy/scipy model trusted, cross-checked by concrete replay.", ref="DESIGN.md §6 C13"),
    C20=dict(text="Symbolic execution of the real scale.py (weights_from_nominal_values, from_nominal_values, from_grad_jac, scale_symmetric, from_equilibrated_kkt, create_scaling dispatch) on an exponent model of frexp/ldexp incl. numpy's truncating float->int stores; the [1,2) / [1,4) normalisation ranges and integrality of the weights proved by z3 for all magnitudes in the stated window; equilibration loop unwound 3 (thorough 4).", note="Exact reals inside the exponent window (magnitudes 0 or in [2^-W0,2^W0]); frexp arguments assumed inside the window (counted); loop iterations beyond the unwinding are reported as aborted paths, not as success; one listed known finding (columns with sum < 1e-10).", ref="DESIGN.md §6 C20"),
)

CHECKS.update(
    C19=dict(text="Symbolic execution of the real deriv_check / DerivError / Solver._deriv_check over arbitrary function values at x and x+eps*e_i and arbitrary derivative entries (dense gradient, sparse COO/CSR/CSC Jacobian/Hessian, m,n<=2; thorough <=3): pass => all entries within the checker's tolerance; all within deriv_tol => pass; DerivError names exactly the wrong rows of the first wrong column; the three differenced function/derivative pairs of Solver._deriv_check, unscaled and under custom power-of-two scalings (oracle: the reference-scaled functions, the user's Hessian requested at the un-scaled multiplier); a K=2 solve (L1 oracle) with the check enabled starts from the unchanged point.", note="Exact reals (finite differences exact; cancellation outside); 'correct derivative' := |d-fd| <= deriv_tol (Taylor bound assumed, not re-proved); checker's tolerance := atol + 1e-5|fd| (numpy.allclose).", ref="DESIGN.md §6 C19"),
)

CHECKS.update(
    C01=dict(text="Three lemmas decided by z3 on the real code: (gate) every path of the real Solver.solve loop with an arbitrary step oracle: status Optimal => returned x,y,d are those of the last accepted iterate and its residual, re-evaluated by an independent oracle, is <= opt_tol; (transfer) for an arbitrary in-box internal iterate with total_res <= opt_tol, the restored x,y,d satisfy the user's KKT conditions with the statement's power-of-two tolerances, for every variable/row kind and enumerated weights |w|<=W (nlsat); (integration) IntegrationSolver.solve up to its first optimality gate against the same oracle -- three listed known findings (filter at rho vs residual at rho=0).", note="Exact reals; internal box assumed (C05); n<=2, m<=1 (thorough m<=2), W<=1 (thorough 2), K=2 (3); IntegrationSolver beyond its first gate (scipy BDF/event root finding) outside; integration gate assumes active_tol, opt_tol >= 1e-10.", ref="DESIGN.md §6 C01"),
)

CHECKS.update(
    C14=dict(text="Symbolic execution of the four real step solvers (matrix assembly, rhs split, elimination/back-substitution, CSR surgery) and newton.py with the linear solver replaced by an exact-solve oracle (any s with M s = rhs): the returned step (dx before clipping, dy) is proved by z3/nlsat to satisfy the dense reference Newton system F'(z_hat) s = F(z) for the active set used; second simplified step uses base matrix + current residual; Simplified/Full/ActiveSet hand identical first systems to the linear solver; symbolic QPs: one step zeroes the residual. n<=2, m<=1 (thorough m<=2, Standard n=3).", note="Exact reals; linear solver assumed exact (tolerances are C17); multiplier-linear Hessian model; one listed known finding (asymmetric formulation crashes when hess[j,j]+lambda cancels exactly).", ref="DESIGN.md §6 C14"),
)

L2 = "one call of the real StepController.compute_step from an ARBITRARY state (any in-box iterate, rho, dt, controller memory, clock) with the real controllers (Exact/Fixed/ResiduumRatio/DistanceRatio), LogController, all four Newton methods incl. the Armijo line search, ImplicitFunc, StepResult and ValidatingEvaluator, the step solver being an arbitrary oracle behind the public Params.step_solver hook and every user callback an uninterpreted function that may return a non-finite value at any call; "
CHECKS.update(
    C05=dict(text="Symbolic execution (z3) of " + L2 + "every argument of every user callback and every produced iterate is proved to lie in the box; start iterate (with scaling) and returned x likewise (array + L1 harness); real step solvers produce the clipped step (L3); the clip kernel StepResult._compute_xn/.iterate is proved bit-exactly over IEEE-754 binary64 in QF_FP (binary32: one listed known finding).", note="Monitor in exact reals with uninterpreted products refined on counterexamples (n=1, m<=1, <=3 Newton solves, line search unwound 2); FP kernel n<=2 all doubles; cyipopt-based controllers not installed -> outside.", ref="DESIGN.md §6 C05"),
    C07=dict(text="Symbolic fault schedule: " + L2 + "after any failure (non-finite value at any callback position, step-solver failure at any solve) the same iterate object comes back unaccepted with doubled lambda, accepted candidates carry no fault flag; L3: each real step solver converts an oracle LinearSolverError at the factorisation or any solve into StepSolverError; L1: a non-finite value at the start gives the dedicated exception; the Optimal gate holds for every history (arbitrary oracle).", note="Fault = symbolic flag on returned values (validate_input=True); finiteness of returned x,y,d in floating point is outside (whole-run float arithmetic).", ref="DESIGN.md §6 C07"),
)
CHECKS["C15"]["text"] = CHECKS["C15"]["text"] + " Controller level (L2): " + L2 + "rejected => lambda' > lambda, failure => 2*lambda and the same iterate, Exact accepted => independent implicit-Euler residual <= newton_tol componentwise, Fixed keeps lambda."
CHECKS["C15"]["note"] = L1NOTE + " L2: n=1, m<=1, <=3 Newton iterations per trial (ExactController's 10 unwound to 3; deeper paths reported as aborted at the bound)."

SC = "Self-composition on the real Solver.solve loop: two (three) solves in ONE symbolic execution against the same uninterpreted user problem, the step oracle of the later run replaying, trial by trial, the outputs the reference run received, so that any difference in what the later run asks for or returns is a solver-visible term inequality; "
CHECKS.update(
    C08=dict(text=SC + "B = A with iteration limit k in [0,K] symbolic, or with a deadline anywhere in its symbolic clock-read sequence: B's trials are A's prefix, B's result is A's current iterate at that moment, status is a limit status, counters agree, no rejected point leaks; the deadline between two Newton iterations of the real ExactController yields an unaccepted trial (L2).", note=L1NOTE + " The unlimited run is a run limited to K trial steps.", ref="DESIGN.md §6 C08"),
    C09=dict(text=SC + "B = A plus observers (display interval symbolic against a symbolic clock = every pattern of displayed rows, DEBUG/INFO logging, recording callback, collect_path): identical trials, status, solution, counters, and no exception on any path; the DEBUG-level inner display of the real controllers runs at L2 without failure.", note=L1NOTE + " report_rcond is NOT covered (the condition estimator does not terminate in the solver); bit-identity in floating point outside (exact reals).", ref="DESIGN.md §6 C09"),
    C10=dict(text=SC + "A on a new Solver, B again on the same Solver object, C on a fresh Solver afterwards: identical trials, status, solution and counters on every path; Params object unmodified; the same composition with the REAL step controllers / Newton methods / PI controller (oracle behind the public Params.step_solver hook, replayed by call index): identical trial points, step sizes, penalties, Newton iterates and results.", note=L1NOTE + " Real-controller composition: K=2 (3), n=1, <=4 (6) Newton solves, termination reduced to the budget; state inside compiled linear solvers outside.", ref="DESIGN.md §6 C10"),
)

CHECKS.update(
    C17=dict(text="PARTIAL (wrapper contract only): symbolic execution of the real LUSolver / GMRESSolver / MINRESSolver / linear_solver dispatch over arbitrary behaviour of scipy.sparse.linalg.{splu,gmres,minres} (contract stubs): RuntimeError => LinearSolverError; info != 0 => LinearSolverError and never a vector; the library is invoked on the requested matrix (M^T when trans, 'T' flag for SuperLU), right-hand side and initial guess; GMRES early return only when the guess solves the requested system to 1e-8. n<=2 symbolic matrices, COO/CSR/CSC.", note="The first sentence of the property (small relative residual of SuperLU/GMRES/MINRES on nonsingular systems) is compiled library code and is NOT decided; Cholesky/MA57/MUMPS/SSIDS wrappers need packages that are not installed.", ref="DESIGN.md §6 C17"),
    C06=dict(text="PARTIAL: the crash obligation (any exception other than the deliberate ones escaping pygradflow code on a feasible path is a solver counterexample, replayed on the real code) over the union of this suite's harnesses: K=2 loop with all six penalty policies, one real compute_step for 4 controllers x Newton methods under a symbolic fault schedule, first Newton step of the 4 real step solvers (exact-cancellation forking for the asymmetric one: one listed known finding), reformulation pipeline, equilibration, observers; the named internal asserts are executed as written on every path.", note="Exact real arithmetic: finiteness of returned x,y,d and overflow/domain errors of whole floating-point runs are NOT decided, nor the condition estimator's assertion (accuracy of compiled LU).", ref="DESIGN.md §6 C06"),
)

NOT_APPLICABLE = {
    "C03": "liveness/convergence of hundreds of floating-point Newton iterations with data-dependent trip count: no bounded symbolic encoding can decide it (DESIGN.md §7)",
}

PENDING_REASON = "no solver-based check registered yet (planned in DESIGN.md §6/§11; not claimed until built)"


# additions made while generalising the harnesses after the seeded-change rounds (DESIGN.md §11)
ADD = dict(
    C01=" Flow-integration solver: besides its start gate, the bound / release event functions of ProblemSwitches.create_event_triggers are proved equal to their definitions for an arbitrary filter and two arbitrary states (the ODE integration itself is outside).",
    C02=" Shapes with a start point outside the box; Unbounded => constraint AND bound violation <= opt_tol; twin shapes in which the step oracle returns StepController's failure result.",
    C05=" One Globalized Newton step (Armijo line search, unwound 2-3 trials) from an ARBITRARY in-box Newton iterate in exact arithmetic: every evaluation point and the returned iterate in the box, i.e. the line search at any Newton iteration.",
    C06=" The real ConditionEstimator driving each real linear-solver wrapper (scipy by contract stub, converged iterations exact, power iteration unwound 1-2): only a number or a LinearSolverError leaves it; every wrapper under every call shape of the LinearSolver interface.",
    C07=" Failures at the starting point as a property of the point (uninterpreted predicates per callback): the dedicated initial-point error is raised iff one of the five callbacks fails there.",
    C08=" A deadline expiring at a clock read inside a step computation yields no accepted step (L2, Exact controller).",
    C09=" L2 composition of one compute_step with the inner display off/on (DEBUG): same result and same controller memory afterwards; a displayed (possibly failing) compute_step followed by an undisplayed one of twin Exact controllers agrees with the never-displayed pair.",
    C11=" Snapshots follow the owner's attribute (a replaced array must keep dtype and values); single working precision over double-precision cached callbacks.",
    C12=" Step-failure results of the controller (same iterate object); observers registered before the first solve, between solves and unregistered, over three solves of one Solver.",
    C13=" Second Jacobian evaluation with a second symbolic active set on the same iterate, cached derivatives re-checked afterwards; default (None) active set; rho = 0 Hessian.",
    C14=" Newton variants with a caller-chosen symbolic tau and a reference active set; two consecutive steps of one ActiveSet / Full / Simplified method object (active set free to change) against the variant's reference system (quick: Standard and Symmetric with ActiveSet and Full Newton, Extended with Full; thorough: every solver x Newton pair).",
    C15=" The oracle step solver may expose the lambda-scaled residual function (as the Symmetric / Asymmetric / Extended solvers do); ratio controllers also with non-reciprocal growth / reduction factors (lamb_inc=4, lamb_red=1; 1.5, 0.25).",
    C16=" Shapes with two constraint rows (max-norm != 2-norm); the same rules on a second solve of the same Solver object (self-composition); the six policies driven directly over N arbitrary accepted iterates in exact arithmetic (every penalty handed back positive and not below the previous one).",
    C17=" LU requested with symmetric=True; the SuperLU stub's accuracy clause holds under its default partial pivoting only (relaxed pivoting / SymmetricMode: nothing promised).",
    C20=" A KKT matrix that admits no equilibration run through all 100 sweeps (exponents decided by forking): non-convergence must end in the error; KKT and m=0 dispatch; single working precision with float32 stores modelled as an uninterpreted round-to-nearest (R32).",
)
for _k, _v in ADD.items():
    CHECKS[_k]["text"] = CHECKS[_k]["text"] + _v


def main():
    props = [json.loads(l)["id"] for l in open(os.path.join(VERIF, "properties.jsonl"))]
    checks = []
    for pid in props:
        c = CHECKS.get(pid)
        if not c:
            continue
        checks.append(
            dict(
                property_id=pid,
                quick_cmd=f"./check {pid} --tier quick",
                thorough_cmd=f"./check {pid} --tier thorough",
                evidence_file=f"/verif/evidence/{pid}.json",
                replay_cmd_template="./check %s --replay {path}" % pid,
                engine="symx",
                level_claimed=dict(category="model_checking", text=c["text"], design_ref=c["ref"]),
                level_note=c["note"],
                technique=c.get("technique", TECH),
            )
        )
    na = []
    for pid in props:
        if pid in CHECKS:
            continue
        na.append(dict(property_id=pid, reason=NOT_APPLICABLE.get(pid, PENDING_REASON)))
    man = dict(
        version=1,
        setup_cmd="./setup.sh",
        hooks=dict(
            guard="PYGRADFLOW_VERIF",
            enable="none needed: all stubbing is attribute patching inside the checking process (no source hooks in /repo)",
            baseline_off_cmd="cd /repo && /venv/bin/python -m pytest -ra -q -p no:cacheprovider --timeout=900 --continue-on-collection-errors",
            source_commits=[],
            add_only=True,
        ),
        engines=[
            dict(
                name="symx",
                path="/verif/symx",
                serves_properties=sorted(CHECKS),
                kind_free_text="path-forking symbolic executor (z3) running the unmodified /repo source against a symbolic model of numpy/scipy.sparse; concrete replay of every counterexample on the real numpy/scipy",
            )
        ],
        checks=checks,
        not_applicable=na,
        notes="exit 0 = all obligations discharged within the stated bounds; exit 1 = reproduced violation (VIOLATION line); exit 2 = inconclusive (unknown/timeout/unmodelled), never success. Known findings: /verif/known_findings.txt.",
    )
    with open(os.path.join(VERIF, "MANIFEST.json"), "w") as f:
        json.dump(man, f, indent=1)
    try:
        import jsonschema

        jsonschema.validate(man, json.load(open("/root/.vp/MANIFEST.schema.json")))
        print("MANIFEST.json valid;", len(checks), "checks,", len(na), "not applicable/pending")
    except ImportError:
        print("MANIFEST.json written (jsonschema not importable here)")


if __name__ == "__main__":
    main()
