#!/bin/sh
# tools/seedcheck.sh <seed-dir-with-patch.diff> <prop> [prop...]  -- apply a seeded change to a scratch copy and run checks on it
P=$(cd "$1" && pwd); shift
S=/var/tmp/pgf-seed-$$
rm -rf $S && mkdir -p $S && rsync -a --exclude .git /repo/ $S/
(cd $S && patch -p1 -s < $P/patch.diff) || { echo "patch failed"; exit 3; }
for prop in "$@"; do
  cd /verif && SYMX_REPO=$S ./check $prop --tier ${TIER:-quick} > /tmp/seedcheck.$$.log 2>&1; rc=$?
  echo "== $prop exit=$rc"; grep -E "^\[|VIOL|INCONC|obligation=|non-repro" /tmp/seedcheck.$$.log | cut -c1-330 | head -8
done
rm -rf $S /tmp/seedcheck.$$.log
