#!/bin/sh
# tools/mut.sh '<sed-expr>' <file> <prop> [tier]   -- apply a sed mutation to a scratch copy of /repo and run a check on it
set -e
S=/var/tmp/pgf-mut
rm -rf $S && mkdir -p $S && rsync -a --exclude .git /repo/ $S/
cd $S && sed -i "$1" "$2" && diff -r /repo/pygradflow $S/pygradflow | head -8
cd /verif && SYMX_REPO=$S ./check $3 --tier ${4:-quick} | grep -E "^\[|VIOL|INCONC|KNOWN|obligation=|non-repro|Error" | head -12
echo "exit=$?"; rm -rf $S
