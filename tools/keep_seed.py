#!/usr/bin/env python3
"""tools/keep_seed.py <id> <out-dir> <property> <needs> <ran> <caught_by>  -- archive a confirmed seeded change under /verif/seeded/<id>/"""
import json, os, shutil, sys
sid, out, prop, needs, ran, caught = sys.argv[1:7]
d = f"/verif/seeded/{sid}"
os.makedirs(d, exist_ok=True)
shutil.copy(os.path.join(out, "patch.diff"), os.path.join(d, "patch.diff"))
demo = open(os.path.join(out, "demo.py")).read()
open(os.path.join(d, "demo.py"), "w").write(demo)
if os.path.exists(os.path.join(out, "notes.md")):
    shutil.copy(os.path.join(out, "notes.md"), os.path.join(d, "notes.md"))
json.dump(dict(id=sid, breaks_property=prop, needs_to_manifest=needs, what_was_run=ran, caught_by=caught, origin="independent sub-agent given only the property text and a scratch worktree"), open(os.path.join(d, "meta.json"), "w"), indent=1)
print("kept", d)
