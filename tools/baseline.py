#!/usr/bin/env python3
"""Runs the repository's pinned test suite (guard off) in the given tree and compares with
/root/.vp/BASELINE.json: every stable_pass test must still pass."""
import json, subprocess, sys, tempfile, os, xml.etree.ElementTree as ET
repo = sys.argv[1] if len(sys.argv) > 1 else "/repo"
base = json.load(open("/root/.vp/BASELINE.json"))
with tempfile.TemporaryDirectory(dir="/var/tmp") as d:
    x = os.path.join(d, "j.xml")
    subprocess.run(["/venv/bin/python", "-m", "pytest", "-ra", "-q", "-p", "no:cacheprovider", "--timeout=900", "--continue-on-collection-errors", f"--junitxml={x}"], cwd=repo, capture_output=True)
    ok = set()
    for tc in ET.parse(x).getroot().iter("testcase"):
        if not any(c.tag in ("failure", "error", "skipped") for c in tc):
            ok.add(f"{tc.get('classname')}::{tc.get('name')}")
missing = [t for t in base["stable_pass"] if t not in ok]
print(f"baseline: {len(base['stable_pass']) - len(missing)}/{len(base['stable_pass'])} stable tests pass in {repo}")
for m in missing[:20]:
    print("  FAIL", m)
sys.exit(1 if missing else 0)
