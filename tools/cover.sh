#!/bin/sh
# tools/cover.sh [Cxx...]  -- audit aid: line coverage of /repo/pygradflow reached by the symbolic runs of the quick tiers
# (not part of any verdict; shows which source lines no harness executes)
D=/var/tmp/symx-cov
rm -rf $D; mkdir -p $D
cd /verif
PROPS="$@"
[ -z "$PROPS" ] && PROPS="C01 C02 C04 C05 C06 C07 C08 C09 C10 C11 C12 C13 C14 C15 C16 C17 C18 C19 C20"
for p in $PROPS; do SYMX_COVER=$D ./check $p --tier ${TIER:-quick} > /dev/null 2>&1; echo "$p rc=$?"; done
cd $D && /verif/.venv/bin/python -m coverage combine -q --data-file=$D/.coverage $D/.coverage.* && /verif/.venv/bin/python -m coverage report --data-file=$D/.coverage -m --include="/repo/pygradflow/*" > /var/tmp/symx-cov-report.txt
tail -5 /var/tmp/symx-cov-report.txt
rm -rf $D
