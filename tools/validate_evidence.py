#!/usr/bin/env python3
import json, sys, glob, jsonschema
sch = json.load(open("/root/.vp/EVIDENCE.schema.json"))
for f in sorted(glob.glob("/verif/evidence/*.json")):
    jsonschema.validate(json.load(open(f)), sch); print("ok", f)
