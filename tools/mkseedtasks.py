#!/usr/bin/env python3
"""tools/mkseedtasks.py <round-dir>  -- writes <round-dir>/<Cxx>.task.md for a further round of seeded changes.
The task text contains only the property (from properties.jsonl), the earlier changes' one-line mechanisms
(so that a different one is chosen) and the names of the relevant library files -- nothing about /verif."""
import json, sys
root = sys.argv[1]
prev = {
 'C01': ["np.isclose(lb, ub) instead of lb == ub when classifying constraint rows in ConstrainedProblem.create_slacks", "Scaling/ScaledProblem scaling the constraint bounds with the wrong (dual/objective) weights", "a late-binding closure making every GRAD_FIXED release event of the integration solver watch the last pinned variable", "StepResult._compute_xn rewritten as a clipped step with the new point recomputed as x - dx (one-ulp rounding)"],
 'C02': ["skipping _check_terminate after a rejected step", "a stale deadline on a Timer created at construction / reused between solves", "Iterate.is_feasible measuring bound feasibility with active_tol via the cached active set", "Iterate.locally_infeasible accumulating J^T c with a fancy-index += that does not sum repeated indices"],
 'C04': ["ScaledProblem.lag_hess mapping the multiplier back without the objective weight", "vectorised in-place rescaling of the Jacobian data returned by a caching callback", "np.isclose instead of == when classifying equality rows in create_slacks", "the starting slacks taking the dtype of the caller's start point (integer truncation)"],
 'C05': ["StepResult._compute_xn skipping the clip when the predicted active set is empty", "Iterate.clipped() tolerating overshoots up to active_tol", "the Globalized line search clipping only its first (full) trial", "StepResult.iterate rebuilding the next point as x - dx in floating point"],
 'C06': ["a `<= 0` -> `< 0` guard in NewtonController.compute_tau (SmallestActiveSet) making np.min run on an empty array", "the symmetric step solver factorising outside its try block (raw LinearSolverError)", "MINRESSolver.solve dropping the trans keyword that the condition estimator passes", "SolverResult built with the user's problem so that a collected path of a problem with slacks fails the shape assertion"],
 'C07': ["StepSolver.estimate_rcond no longer swallowing LinearSolverError (symmetric solver + report_rcond)", "ValidatingEvaluator letting NaN (but not inf) through", "print_problem_stats (the only start evaluation of the Hessian) returning early unless INFO logging is on", "fail_result taking the step size from the controller's stored lamb"],
 'C08': ["skipping the termination test after a rejected step", "the solver adopting a step that the penalty filter vetoed", "the Exact controller in-loop time-limit check turned into a break that lands on the accepted tail", "the penalty strategies keeping their penalty in params.rho (shared Params object)"],
 'C09': ["computing the obj_nonlin / cons_nonlin display values eagerly outside StateData's try/except", "a positional-argument mix-up making the condition estimate the accept flag under report_rcond", "compute_step storing 1/dt in the controller inside the display branch", "SolverResult built with the user's problem (collect_path with slack rows asserts)"],
 'C10': ["creating the penalty strategy in Solver.__init__ instead of in solve() (filter state survives)", "a cache of scaling exponents keyed by nnz in ScaledProblem", "DualNormUpdate keeping its penalty in params.rho", "a class-level warm-start vector in GMRESSolver"],
 'C11': ["dropping np.copy in ConstrainedProblem.cons", "weights_from_nominal_values writing into its input array", "eval.astype converting the sparse matrix of the caller data in place under Precision.Single", "setdiag through a shallow copy.copy of the callback's Hessian in the asymmetric step solver"],
 'C12': ["advancing the model time before the penalty veto decision", "a `continue` for failed step computations that skips the iteration counter", "Callbacks dispatching from a tuple cached at the first dispatch (later registrations ignored)", "the path orientation guessed from its shape (square paths stored transposed)"],
 'C13': ["a sign slip in the explicit-tau branch of ImplicitFunc.projection_initial", "keep_rows clearing rows in place on a CSR view sharing data with the cached Jacobian", "ActiveSet.at_upper no longer disjoint from at_both plus np.select in bounds_dual", "bound_violation returning 0 whenever the active set's tolerance-relaxed 'satisfied' mask holds"],
 'C14': ["building the asymmetric solver's matrix as CSC while overwrite_active_rows assumes CSR", "ActiveSetNewtonMethod no longer forwarding tau to its base class", "SymmetricStepSolver storing the lambda-shifted Hessian back and re-shifting after an active-set update", "np.argsort (unstable above 16 elements) ordering the rows of the extended matrix"],
 'C15': ["raising the lamb_max abort only for rejected steps", "fail_result using the controller's stored lamb instead of 1/dt", "ExactController testing convergence on the (lambda-scaled) function of the step solver", "an elif that skips the upper-bound clip when some variable was clipped at its lower bound"],
 'C16': ["filter veto proposing 10*rho without storing it plus the solver adopting rho after a veto", "DualNormUpdate measuring the multipliers in the 2-norm", "the penalty strategy created in Solver.__init__ with rho initialised only in its constructor", "np.isclose deciding whether the solver adopts a changed penalty"],
 'C17': ["LUSolver factoring the transpose of CSR input and combining the trans flag with `or`", "GMRES treating positive info (not converged) as success", "LUSolver asking SuperLU for SymmetricMode / diag_pivot_thresh=0 when symmetric=True", "the GMRES early-exit residual not forwarding trans"],
 'C18': ["deleting from the entries list while iterating over it in filter_insert", "a merged single-pass filter_insert that accepts exact duplicates", "PenaltyFilter.update reporting params.rho instead of the penalty of the filter on accept", "the filter raising its penalty only once per prev_iterate object"],
 'C19': ["zeroing finite-difference entries outside the sparsity pattern in deriv_check", "DerivError computing its invalid-row mask with a different tolerance rule than the check", "a stale closure variable in the Hessian check of Solver._deriv_check finite difference", "the derivative check skipped on later solves of the same Solver"],
 'C20': ["from_grad_jac giving zero-gradient variables weight 0 while prescaling with grad_weights", "scale_symmetric's for/else turned into an off-by-one check so that non-convergence never raises", "create_scaling evaluating through the evaluator (float32 rounding under Precision.Single)", "a sign slip in an m == 0 shortcut of from_equilibrated_kkt"],
}
keys = {
 'C01': "solver.py (_check_terminate, result assembly), iterate.py (residuals, bounds_dual, active_set), active_set.py, transform.py, cons_problem.py, scale.py (unscale_*), integration/integration_solver.py",
 'C02': "solver.py (_check_terminate order, loop), iterate.py (locally_infeasible, is_feasible, bound_violation), active_set.py, timer.py",
 'C04': "transform.py, scale.py (Scaling.scale_*/unscale_*, ScaledProblem, create_scaling), cons_problem.py (slacks, offsets, transform_sol/restore_sol), eval.py",
 'C05': "step/solver/step_solver.py (StepResult), iterate.py, newton.py, transform.py (create_transformed_iterate), cons_problem.py (slack start), implicit_func.py, step/*control*.py",
 'C06': "solver.py, step/step_control.py, step/solver/*.py, penalty.py, controller.py, step/newton_control.py, step/*_control.py, display.py, result.py, implicit_func.py, util.py",
 'C07': "eval.py (ValidatingEvaluator), step/step_control.py (compute_step), iterate.py (check_eval), solver.py, step/solver/*.py, newton.py",
 'C08': "solver.py (main loop), timer.py, step/exact_control.py, step/step_control.py, penalty.py",
 'C09': "solver.py (display block, path), display.py, step/step_control.py (display_step), step/cond_estimate.py, callbacks.py, iterate.py",
 'C10': "solver.py, penalty.py, step/step_control.py, step/*_control.py, controller.py, transform.py, eval.py, params.py",
 'C11': "scale.py, cons_problem.py, eval.py, iterate.py, transform.py, problem.py, step/solver/*.py, implicit_func.py, util.py",
 'C12': "solver.py (loop body), result.py, callbacks.py, penalty.py",
 'C13': "iterate.py, implicit_func.py (ImplicitFunc, ScaledImplicitFunc), active_set.py, util.py",
 'C14': "step/solver/{standard,scaled,extended,symmetric,asymmetric}_step_solver.py, step/solver/step_solver.py, newton.py, implicit_func.py",
 'C15': "step/step_control.py, step/exact_control.py, step/distance_ratio_control.py, step/residuum_ratio_control.py, step/fixed_control.py, controller.py, solver.py",
 'C16': "penalty.py (six policies), solver.py",
 'C17': "linear_solver/__init__.py, linear_solver.py, lu_solver.py, gmres_solver.py, minres_solver.py",
 'C18': "penalty.py (PenaltyFilter.filter_insert, update, the two subclasses)",
 'C19': "deriv_check.py, solver.py (_deriv_check)",
 'C20': "scale.py (weights_from_nominal_values, from_nominal_values, from_grad_jac, scale_symmetric, from_equilibrated_kkt, create_scaling)",
}
for l in open('/verif/properties.jsonl'):
    p = json.loads(l)
    i = p['id']
    if i == 'C03':
        continue
    W = f"{root}/{i}"
    earlier = "\n".join(f"  * {m}" for m in prev[i])
    t = f"""# Task: seed ONE realistic, subtle bug that breaks property {i} of chrhansk/pygradflow

You are helping to evaluate a verification suite.  Your private working copy of the library (a git worktree of
chrhansk/pygradflow, a pure-Python sequential-homotopy / gradient-flow NLP solver on numpy/scipy) is at {W}.
Work ONLY inside {W} and {W}.out (outputs).  Do NOT read or touch /verif, /repo or any other
{root}/* directory.  No network.  Do NOT use `git stash` (it is shared between worktrees): to switch your change
off/on use `git diff > {W}.out/patch.diff` once, then `git apply -R {W}.out/patch.diff` /
`git apply {W}.out/patch.diff`.  Start with `cd {W} && git status --short` (must be clean).

## The property your change must BREAK

{i}: {p['title']}

Statement: {p['statement']}

Quantifier: {p['quantifier']['text']}

## This is a FURTHER seeded change for this property

Earlier changes already exist:
{earlier}
Produce something DIFFERENT from all of them: a different mechanism, in a different function or file, breaking a different
clause of the statement if it has several, and needing a different kind of trigger (if the earlier ones needed a
special input, prefer a special parameter combination or a special position in a sequence, and vice versa).

## Requirements

1. A small source change under {W}/pygradflow/ (a few lines; the kind of mistake a maintainer could plausibly
   make in a refactoring, clean-up, vectorisation or performance tweak).  The package must still import and the EXISTING
   test suite must still pass exactly as before:
   `cd {W} && /venv/bin/python -m pytest -q -p no:cacheprovider --timeout=900 2>&1 | tail -15` (about 70 s).
   On the unmodified code 209 tests pass and 9 fail (known failures needing packages that are not installed: the MA57
   linear-solver tests, test_params::test_roundtrip, the BoxReduced/Optimizing step-control tests, test_target_MA57).
   With your change the same 209 must still pass.
2. It must NOT be something ordinary use exposes at once.  It should need something specific to manifest: an unusual input
   (a particular kind of bound / constraint row / sparse format / value exactly at a boundary or tolerance / more than one
   variable or constraint interacting), a particular parameter combination, a particular position in a sequence (k-th
   evaluation, a rejected step followed by ..., a second solve), or two cooperating sites that each look fine alone.
3. A demonstration {W}.out/demo.py, run as `cd {W} && /venv/bin/python {W}.out/demo.py`
   (pygradflow is not installed in the venv: rely on cwd or `sys.path.insert(0, '{W}')`), that exits 1 (printing
   what is wrong) WITH your change and exits 0 WITHOUT it.  It must show a violation of the property through the library's
   public API, checked against an independent numpy computation / reference model.
4. Save the change as {W}.out/patch.diff (unified diff from `git diff`); leave it applied in the worktree too.
5. Write {W}.out/notes.md: what the change is, why the existing tests do not notice, exactly what is needed for
   it to manifest, the commands you ran and their outcome (test-suite summary line with and without the change; demo exit
   codes with and without the change).

Useful facts: python is /venv/bin/python (numpy 2.5, scipy 1.18); tests are in {W}/tests; relevant files under
pygradflow/: {keys[i]}; parameters are in params.py.

Report back briefly: the diff, how it manifests, the verification results.  If your first idea breaks an existing test or is
exposed by ordinary use, iterate until all requirements hold.
"""
    open(f"{root}/{i}.task.md", "w").write(t)
print("ok")
